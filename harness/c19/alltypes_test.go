package c19

import (
	"bytes"
	"fmt"
	"testing"

	"pgregory.net/rapid"

	"github.com/tink-crypto/tink-go/v2/aead"
	"github.com/tink-crypto/tink-go/v2/daead"
	"github.com/tink-crypto/tink-go/v2/hybrid"
	"github.com/tink-crypto/tink-go/v2/keyderivation"
	"github.com/tink-crypto/tink-go/v2/keyset"
	"github.com/tink-crypto/tink-go/v2/mac"
	"github.com/tink-crypto/tink-go/v2/prf"
	"github.com/tink-crypto/tink-go/v2/signature"
	"github.com/tink-crypto/tink-go/v2/streamingaead"
	"github.com/tink-crypto/tink-go/v2/verifharness/internal/detrand"
	"github.com/tink-crypto/tink-go/v2/verifharness/internal/evid"
	"github.com/tink-crypto/tink-go/v2/verifharness/internal/gen"
	"github.com/tink-crypto/tink-go/v2/verifharness/internal/keys"
	"github.com/tink-crypto/tink-go/v2/verifharness/internal/tk"
)

// TestPrimitiveBuffersAllTypes: the buffer discipline of EVERY key type and parameter combination
// the key generator produces (the per-class units above use a few templates plus the legacy
// adapters): arguments live in arenas with spare capacity 0/1/7/64 (and 16..32 so that in-place
// "append into the caller's slice" optimisations have room), results must not alias them.
func TestPrimitiveBuffersAllTypes(t *testing.T) {
	classes := []keys.Class{keys.AEAD, keys.DAEAD, keys.MAC, keys.PRF, keys.Signature, keys.Hybrid, keys.Streaming, keys.Deriver}
	rapid.Check(t, func(rt *rapid.T) {
		detrand.Seed(rapid.Uint64().Draw(rt, "entropy"))
		c := rapid.SampledFrom(classes).Draw(rt, "class")
		info := keys.DrawUsable(rt, "key", c)
		if info.NoSerialization && c != keys.Signature {
			rt.Skip("not serializable")
		}
		h, err := tk.HandleFromKey(info.Key)
		if err != nil {
			rt.Fatalf("%s: %v", info.Desc, err)
		}
		p := &probe{t: rt, desc: info.Desc}
		x := gen.Bytes(rt, "x", 200)
		y := gen.BytesOrNil(rt, "y", 60)
		switch c {
		case keys.AEAD:
			a := tk.Must(aead.New(h))
			ct, err := a.Encrypt(p.in("plaintext", x), p.in("associated data", y))
			if err != nil {
				rt.Fatalf("%s: Encrypt: %v", info.Desc, err)
			}
			p.verify("Encrypt")
			p.out("Encrypt", "ciphertext", ct)
			got, err := a.Decrypt(p.in("ciphertext", ct), p.in("associated data 2", y))
			if err != nil || !bytes.Equal(got, x) {
				rt.Fatalf("%s: Decrypt: %v", info.Desc, err)
			}
			p.verify("Decrypt")
			p.out("Decrypt", "plaintext", got)
		case keys.DAEAD:
			d := tk.Must(daead.New(h))
			ct, err := d.EncryptDeterministically(p.in("plaintext", x), p.in("associated data", y))
			if err != nil {
				rt.Fatalf("%s: Encrypt: %v", info.Desc, err)
			}
			p.verify("EncryptDeterministically")
			p.out("EncryptDeterministically", "ciphertext", ct)
			got, err := d.DecryptDeterministically(p.in("ciphertext", ct), p.in("associated data 2", y))
			if err != nil || !bytes.Equal(got, x) {
				rt.Fatalf("%s: Decrypt: %v", info.Desc, err)
			}
			p.verify("DecryptDeterministically")
			p.out("DecryptDeterministically", "plaintext", got)
		case keys.MAC:
			m := tk.Must(mac.New(h))
			tag, err := m.ComputeMAC(p.in("message", x))
			if err != nil {
				rt.Fatalf("%s: ComputeMAC: %v", info.Desc, err)
			}
			p.verify("ComputeMAC")
			p.out("ComputeMAC", "tag", tag)
			if err := m.VerifyMAC(p.in("tag", tag), p.in("message 2", x)); err != nil {
				rt.Fatalf("%s: VerifyMAC: %v", info.Desc, err)
			}
			p.verify("VerifyMAC")
		case keys.PRF:
			s := tk.Must(prf.NewPRFSet(h))
			out, err := s.ComputePrimaryPRF(p.in("input", x), 16)
			if err != nil {
				rt.Fatalf("%s: ComputePrimaryPRF: %v", info.Desc, err)
			}
			p.verify("ComputePrimaryPRF")
			p.out("ComputePrimaryPRF", "output", out)
		case keys.Signature:
			s := tk.Must(signature.NewSigner(h))
			v := tk.Must(signature.NewVerifier(tk.Must(h.Public())))
			sig, err := s.Sign(p.in("message", x))
			if err != nil {
				rt.Fatalf("%s: Sign: %v", info.Desc, err)
			}
			p.verify("Sign")
			p.out("Sign", "signature", sig)
			if err := v.Verify(p.in("signature", sig), p.in("message 2", x)); err != nil {
				rt.Fatalf("%s: Verify: %v", info.Desc, err)
			}
			p.verify("Verify")
		case keys.Hybrid:
			e := tk.Must(hybrid.NewHybridEncrypt(tk.Must(h.Public())))
			d := tk.Must(hybrid.NewHybridDecrypt(h))
			ct, err := e.Encrypt(p.in("plaintext", x), p.in("context info", y))
			if err != nil {
				rt.Fatalf("%s: Encrypt: %v", info.Desc, err)
			}
			p.verify("Encrypt")
			p.out("Encrypt", "ciphertext", ct)
			got, err := d.Decrypt(p.in("ciphertext", ct), p.in("context info 2", y))
			if err != nil || !bytes.Equal(got, x) {
				rt.Fatalf("%s: Decrypt: %v", info.Desc, err)
			}
			p.verify("Decrypt")
			p.out("Decrypt", "plaintext", got)
		case keys.Streaming:
			sa := tk.Must(streamingaead.New(h))
			var buf bytes.Buffer
			w, err := sa.NewEncryptingWriter(&buf, p.in("aad", y))
			if err != nil {
				rt.Fatalf("%s: %v", info.Desc, err)
			}
			if _, err := w.Write(p.in("write", x)); err != nil {
				rt.Fatalf("%s: Write: %v", info.Desc, err)
			}
			p.verify("Write")
			if err := w.Close(); err != nil {
				rt.Fatalf("%s: Close: %v", info.Desc, err)
			}
			p.verify("Close")
			r, err := sa.NewDecryptingReader(bytes.NewReader(buf.Bytes()), p.in("aad 2", y))
			if err != nil {
				rt.Fatalf("%s: %v", info.Desc, err)
			}
			var out bytes.Buffer
			if _, err := out.ReadFrom(r); err != nil || !bytes.Equal(out.Bytes(), x) {
				rt.Fatalf("%s: stream does not decrypt: %v", info.Desc, err)
			}
			p.verify("Read")
		case keys.Deriver:
			d := tk.Must(keyderivation.New(h))
			if _, err := d.DeriveKeyset(p.in("salt", x)); err != nil {
				rt.Fatalf("%s: DeriveKeyset: %v", info.Desc, err)
			}
			p.verify("DeriveKeyset")
		}
		// ---- the caller reuses its buffers: a second call on the SAME primitive object, with the same
		// slices now holding other bytes, must give what a primitive built afresh gives for those bytes
		// (nothing of an earlier argument may be retained: added after seeded change C17d, a memo keyed
		// by the caller's salt slice), and an argument scribbled over after the call that received it
		// must not change what that call's result does later.
		xb, yb := p.in("x reused", x), p.in("y reused", y)
		reuse := func(stage string) (x2, y2 []byte) {
			p.verify(stage)
			p.scribble()
			return bytes.Clone(xb), bytes.Clone(yb)
		}
		stale := func(op string, err error) {
			rt.Fatalf("%s: %s: after the caller overwrote its argument buffers in place and called again, the result is not the one for the new contents (an earlier argument was retained): %v", info.Desc, op, err)
		}
		h2 := tk.Must(tk.HandleFromKey(info.Key))
		switch c {
		case keys.AEAD:
			a, fresh := tk.Must(aead.New(h)), tk.Must(aead.New(h2))
			if _, err := a.Encrypt(xb, yb); err != nil {
				rt.Fatalf("%s: Encrypt: %v", info.Desc, err)
			}
			x2, y2 := reuse("Encrypt")
			ct, err := a.Encrypt(xb, yb)
			if err != nil {
				rt.Fatalf("%s: Encrypt: %v", info.Desc, err)
			}
			if got, err := fresh.Decrypt(ct, y2); err != nil || !bytes.Equal(got, x2) {
				stale("Encrypt", err)
			}
		case keys.DAEAD:
			d, fresh := tk.Must(daead.New(h)), tk.Must(daead.New(h2))
			if _, err := d.EncryptDeterministically(xb, yb); err != nil {
				rt.Fatalf("%s: Encrypt: %v", info.Desc, err)
			}
			x2, y2 := reuse("EncryptDeterministically")
			ct, err := d.EncryptDeterministically(xb, yb)
			want, err2 := fresh.EncryptDeterministically(x2, y2)
			if err != nil || err2 != nil || !bytes.Equal(ct, want) {
				stale("EncryptDeterministically", err)
			}
		case keys.MAC:
			m, fresh := tk.Must(mac.New(h)), tk.Must(mac.New(h2))
			if _, err := m.ComputeMAC(xb); err != nil {
				rt.Fatalf("%s: ComputeMAC: %v", info.Desc, err)
			}
			x2, _ := reuse("ComputeMAC")
			tag, err := m.ComputeMAC(xb)
			want, err2 := fresh.ComputeMAC(x2)
			if err != nil || err2 != nil || !bytes.Equal(tag, want) {
				stale("ComputeMAC", err)
			}
		case keys.PRF:
			s, fresh := tk.Must(prf.NewPRFSet(h)), tk.Must(prf.NewPRFSet(h2))
			if _, err := s.ComputePrimaryPRF(xb, 16); err != nil {
				rt.Fatalf("%s: ComputePrimaryPRF: %v", info.Desc, err)
			}
			x2, _ := reuse("ComputePrimaryPRF")
			out, err := s.ComputePrimaryPRF(xb, 16)
			want, err2 := fresh.ComputePrimaryPRF(x2, 16)
			if err != nil || err2 != nil || !bytes.Equal(out, want) {
				stale("ComputePrimaryPRF", err)
			}
		case keys.Signature:
			s := tk.Must(signature.NewSigner(h))
			fresh := tk.Must(signature.NewVerifier(tk.Must(h2.Public())))
			if _, err := s.Sign(xb); err != nil {
				rt.Fatalf("%s: Sign: %v", info.Desc, err)
			}
			x2, _ := reuse("Sign")
			sig, err := s.Sign(xb)
			if err != nil {
				rt.Fatalf("%s: Sign: %v", info.Desc, err)
			}
			if err := fresh.Verify(sig, x2); err != nil {
				stale("Sign", err)
			}
		case keys.Hybrid:
			e := tk.Must(hybrid.NewHybridEncrypt(tk.Must(h.Public())))
			fresh := tk.Must(hybrid.NewHybridDecrypt(h2))
			if _, err := e.Encrypt(xb, yb); err != nil {
				rt.Fatalf("%s: Encrypt: %v", info.Desc, err)
			}
			x2, y2 := reuse("Encrypt")
			ct, err := e.Encrypt(xb, yb)
			if err != nil {
				rt.Fatalf("%s: Encrypt: %v", info.Desc, err)
			}
			if got, err := fresh.Decrypt(ct, y2); err != nil || !bytes.Equal(got, x2) {
				stale("Encrypt", err)
			}
		case keys.Streaming:
			// the associated data is an argument of NewEncryptingWriter / NewDecryptingReader: what the
			// returned writer / reader does later belongs to that call
			sa, fresh := tk.Must(streamingaead.New(h)), tk.Must(streamingaead.New(h2))
			y1 := bytes.Clone(yb)
			var buf bytes.Buffer
			w, err := sa.NewEncryptingWriter(&buf, yb)
			if err != nil {
				rt.Fatalf("%s: %v", info.Desc, err)
			}
			x2, _ := reuse("NewEncryptingWriter") // yb now holds other bytes; the stream was opened with y1
			if _, err := w.Write(xb); err != nil {
				rt.Fatalf("%s: Write: %v", info.Desc, err)
			}
			if err := w.Close(); err != nil {
				rt.Fatalf("%s: Close: %v", info.Desc, err)
			}
			fr, err := fresh.NewDecryptingReader(bytes.NewReader(buf.Bytes()), y1)
			if err != nil {
				rt.Fatalf("%s: %v", info.Desc, err)
			}
			var out bytes.Buffer
			if _, err := out.ReadFrom(fr); err != nil || !bytes.Equal(out.Bytes(), x2) {
				rt.Fatalf("%s: a stream opened with associated data %x, which the caller overwrote before the first Write, does not decrypt under that associated data: %v", info.Desc, y1, err)
			}
			// the caller puts the right associated data back into its buffer, opens a reader, and
			// overwrites the buffer again before the first Read
			copy(yb, y1)
			for _, a := range p.arenas {
				a.orig = append([]byte{}, a.buf...)
			}
			r, err := sa.NewDecryptingReader(bytes.NewReader(buf.Bytes()), yb)
			if err != nil {
				rt.Fatalf("%s: %v", info.Desc, err)
			}
			reuse("NewDecryptingReader")
			out.Reset()
			if _, err := out.ReadFrom(r); err != nil || !bytes.Equal(out.Bytes(), x2) {
				knownOrFail(rt, "streaming-keyset-reader-retains-associated-data", fmt.Sprintf("%s: NewDecryptingReader was given the right associated data %x; the caller overwrote its slice before the first Read and the stream no longer decrypts (the reader kept the caller's slice): %v", info.Desc, y1, err))
			}
		case keys.Deriver:
			d, fresh := tk.Must(keyderivation.New(h)), tk.Must(keyderivation.New(h2))
			// (the two one-key handles may carry different random key IDs for keys without ID
			// requirement: the derived KEYS are compared, not the keyset bytes)
			sameKeys := func(a, b *keyset.Handle) bool {
				if a.Len() != b.Len() {
					return false
				}
				for i := 0; i < a.Len(); i++ {
					ea, err1 := a.Entry(i)
					eb, err2 := b.Entry(i)
					if err1 != nil || err2 != nil || !ea.Key().Equal(eb.Key()) {
						return false
					}
				}
				return true
			}
			if _, err := d.DeriveKeyset(xb); err != nil {
				rt.Fatalf("%s: DeriveKeyset: %v", info.Desc, err)
			}
			x2, _ := reuse("DeriveKeyset")
			got, err := d.DeriveKeyset(xb)
			want, err2 := fresh.DeriveKeyset(x2)
			if err != nil || err2 != nil || !sameKeys(got, want) {
				stale("DeriveKeyset", err)
			}
		}
		p.verify("second calls")
		// ---- results belong to the caller: a result kept across a later call on the same primitive
		// (same-length other input, so that an internal scratch buffer handed out as the result would be
		// refilled) keeps its bytes and shares no memory with the later result; and after the caller has
		// overwritten every result it got (full capacity), the primitive still gives what a primitive
		// built afresh gives / accepts (no result is a view of the primitive's own state).
		x3 := bytes.Clone(x)
		for i := range x3 {
			x3[i] ^= 0x5A
		}
		if len(x3) == 0 {
			x3 = []byte{0x5A}
		}
		kept := func(op string, r1, saved []byte) {
			if !bytes.Equal(r1, saved) {
				rt.Fatalf("%s: %s: a result the caller kept changed when the same primitive was called again with another input:\n was %x\n now %x", info.Desc, op, saved, r1)
			}
		}
		corrupted := func(op string, err error) {
			rt.Fatalf("%s: %s: after the caller overwrote the results it had received, the primitive no longer gives the right result (a result was a view of the primitive's state): %v", info.Desc, op, err)
		}
		switch c {
		case keys.AEAD:
			a, fresh := tk.Must(aead.New(h)), tk.Must(aead.New(h2))
			r1, err1 := a.Encrypt(x, y)
			s1 := bytes.Clone(r1)
			r2, err2 := a.Encrypt(x3, y)
			if err1 != nil || err2 != nil {
				rt.Fatalf("%s: Encrypt: %v %v", info.Desc, err1, err2)
			}
			p.out("Encrypt", "ciphertext (kept)", r1)
			p.out("Encrypt", "ciphertext (later)", r2)
			kept("Encrypt", r1, s1)
			d1, err1 := a.Decrypt(s1, y)
			sd := bytes.Clone(d1)
			d2, err2 := a.Decrypt(bytes.Clone(r2), y)
			if err1 != nil || err2 != nil || !bytes.Equal(d2, x3) {
				rt.Fatalf("%s: Decrypt: %v %v", info.Desc, err1, err2)
			}
			p.out("Decrypt", "plaintext (kept)", d1)
			p.out("Decrypt", "plaintext (later)", d2)
			kept("Decrypt", d1, sd)
			flipAll(r1)
			flipAll(r2)
			flipAll(d1)
			flipAll(d2)
			r3, err := a.Encrypt(x, y)
			if err != nil {
				rt.Fatalf("%s: Encrypt: %v", info.Desc, err)
			}
			if got, err := fresh.Decrypt(r3, y); err != nil || !bytes.Equal(got, x) {
				corrupted("Encrypt", err)
			}
			if got, err := a.Decrypt(s1, y); err != nil || !bytes.Equal(got, x) {
				corrupted("Decrypt", err)
			}
		case keys.DAEAD:
			d, fresh := tk.Must(daead.New(h)), tk.Must(daead.New(h2))
			r1, err1 := d.EncryptDeterministically(x, y)
			s1 := bytes.Clone(r1)
			r2, err2 := d.EncryptDeterministically(x3, y)
			if err1 != nil || err2 != nil {
				rt.Fatalf("%s: EncryptDeterministically: %v %v", info.Desc, err1, err2)
			}
			p.out("EncryptDeterministically", "ciphertext (kept)", r1)
			p.out("EncryptDeterministically", "ciphertext (later)", r2)
			kept("EncryptDeterministically", r1, s1)
			d1, err1 := d.DecryptDeterministically(s1, y)
			sd := bytes.Clone(d1)
			d2, err2 := d.DecryptDeterministically(bytes.Clone(r2), y)
			if err1 != nil || err2 != nil || !bytes.Equal(d2, x3) {
				rt.Fatalf("%s: DecryptDeterministically: %v %v", info.Desc, err1, err2)
			}
			p.out("DecryptDeterministically", "plaintext (kept)", d1)
			p.out("DecryptDeterministically", "plaintext (later)", d2)
			kept("DecryptDeterministically", d1, sd)
			flipAll(r1)
			flipAll(r2)
			flipAll(d1)
			flipAll(d2)
			r3, err := d.EncryptDeterministically(x, y)
			want, errw := fresh.EncryptDeterministically(x, y)
			if err != nil || errw != nil || !bytes.Equal(r3, want) || !bytes.Equal(r3, s1) {
				corrupted("EncryptDeterministically", err)
			}
		case keys.MAC:
			m, fresh := tk.Must(mac.New(h)), tk.Must(mac.New(h2))
			r1, err1 := m.ComputeMAC(x)
			s1 := bytes.Clone(r1)
			r2, err2 := m.ComputeMAC(x3)
			if err1 != nil || err2 != nil {
				rt.Fatalf("%s: ComputeMAC: %v %v", info.Desc, err1, err2)
			}
			p.out("ComputeMAC", "tag (kept)", r1)
			p.out("ComputeMAC", "tag (later)", r2)
			kept("ComputeMAC", r1, s1)
			flipAll(r1)
			flipAll(r2)
			r3, err := m.ComputeMAC(x)
			if err != nil || !bytes.Equal(r3, s1) || fresh.VerifyMAC(r3, x) != nil {
				corrupted("ComputeMAC", err)
			}
			if err := m.VerifyMAC(s1, x); err != nil {
				corrupted("VerifyMAC", err)
			}
		case keys.PRF:
			ps := tk.Must(prf.NewPRFSet(h))
			r1, err1 := ps.ComputePrimaryPRF(x, 16)
			s1 := bytes.Clone(r1)
			r2, err2 := ps.ComputePrimaryPRF(x3, 16)
			if err1 != nil || err2 != nil {
				rt.Fatalf("%s: ComputePrimaryPRF: %v %v", info.Desc, err1, err2)
			}
			p.out("ComputePrimaryPRF", "output (kept)", r1)
			p.out("ComputePrimaryPRF", "output (later)", r2)
			kept("ComputePrimaryPRF", r1, s1)
			flipAll(r1)
			flipAll(r2)
			if r3, err := ps.ComputePrimaryPRF(x, 16); err != nil || !bytes.Equal(r3, s1) {
				corrupted("ComputePrimaryPRF", err)
			}
		case keys.Signature:
			sg := tk.Must(signature.NewSigner(h))
			v, fresh := tk.Must(signature.NewVerifier(tk.Must(h.Public()))), tk.Must(signature.NewVerifier(tk.Must(h2.Public())))
			r1, err1 := sg.Sign(x)
			s1 := bytes.Clone(r1)
			r2, err2 := sg.Sign(x3)
			if err1 != nil || err2 != nil {
				rt.Fatalf("%s: Sign: %v %v", info.Desc, err1, err2)
			}
			p.out("Sign", "signature (kept)", r1)
			p.out("Sign", "signature (later)", r2)
			kept("Sign", r1, s1)
			if err := v.Verify(r2, x3); err != nil {
				rt.Fatalf("%s: Verify: %v", info.Desc, err)
			}
			flipAll(r1)
			flipAll(r2)
			r3, err := sg.Sign(x)
			if err != nil || fresh.Verify(r3, x) != nil {
				corrupted("Sign", err)
			}
			if err := v.Verify(s1, x); err != nil {
				corrupted("Verify", err)
			}
		case keys.Hybrid:
			e := tk.Must(hybrid.NewHybridEncrypt(tk.Must(h.Public())))
			d, fresh := tk.Must(hybrid.NewHybridDecrypt(h)), tk.Must(hybrid.NewHybridDecrypt(h2))
			r1, err1 := e.Encrypt(x, y)
			s1 := bytes.Clone(r1)
			r2, err2 := e.Encrypt(x3, y)
			if err1 != nil || err2 != nil {
				rt.Fatalf("%s: Encrypt: %v %v", info.Desc, err1, err2)
			}
			p.out("Encrypt", "ciphertext (kept)", r1)
			p.out("Encrypt", "ciphertext (later)", r2)
			kept("Encrypt", r1, s1)
			d1, err1 := d.Decrypt(s1, y)
			sd := bytes.Clone(d1)
			d2, err2 := d.Decrypt(bytes.Clone(r2), y)
			if err1 != nil || err2 != nil || !bytes.Equal(d2, x3) {
				rt.Fatalf("%s: Decrypt: %v %v", info.Desc, err1, err2)
			}
			p.out("Decrypt", "plaintext (kept)", d1)
			p.out("Decrypt", "plaintext (later)", d2)
			kept("Decrypt", d1, sd)
			flipAll(r1)
			flipAll(r2)
			flipAll(d1)
			flipAll(d2)
			r3, err := e.Encrypt(x, y)
			if err != nil {
				rt.Fatalf("%s: Encrypt: %v", info.Desc, err)
			}
			if got, err := fresh.Decrypt(r3, y); err != nil || !bytes.Equal(got, x) {
				corrupted("Encrypt", err)
			}
			if got, err := d.Decrypt(s1, y); err != nil || !bytes.Equal(got, x) {
				corrupted("Decrypt", err)
			}
		case keys.Streaming:
			// the destination of Read is the caller's: a reader writes inside dst[:len] only (never into
			// the spare capacity behind it or the memory around it), whatever the read sizes are
			sa := tk.Must(streamingaead.New(h))
			var buf bytes.Buffer
			w, err := sa.NewEncryptingWriter(&buf, y)
			if err != nil {
				rt.Fatalf("%s: %v", info.Desc, err)
			}
			if _, err := w.Write(x); err != nil {
				rt.Fatalf("%s: Write: %v", info.Desc, err)
			}
			if err := w.Close(); err != nil {
				rt.Fatalf("%s: Close: %v", info.Desc, err)
			}
			r, err := sa.NewDecryptingReader(bytes.NewReader(buf.Bytes()), y)
			if err != nil {
				rt.Fatalf("%s: %v", info.Desc, err)
			}
			var got []byte
			for i := 0; i < len(x)+4; i++ {
				n := rapid.SampledFrom([]int{1, 7, 16, 64, 300}).Draw(rt, "read_size")
				dst := p.in("read destination", make([]byte, n))
				a := p.arenas[len(p.arenas)-1]
				k, err := r.Read(dst)
				if k < 0 || k > n {
					rt.Fatalf("%s: Read into %d bytes returned n = %d", info.Desc, n, k)
				}
				// bytes inside dst[:len] are the reader's to write (io.Reader: all of p may be used as scratch)
				copy(a.orig[guardLen:guardLen+n], a.buf[guardLen:guardLen+n])
				p.verify("Read")
				got = append(got, dst[:k]...)
				if err != nil {
					break
				}
			}
			if !bytes.Equal(got, x) {
				rt.Fatalf("%s: reading the stream in pieces into caller buffers gives %x, want %x", info.Desc, got, x)
			}
		case keys.Deriver:
			// derived handles are results too: one derived earlier is not changed by a later derivation
			d := tk.Must(keyderivation.New(h))
			h1, err1 := d.DeriveKeyset(x)
			_, err2 := d.DeriveKeyset(x3)
			h3, err3 := d.DeriveKeyset(x)
			if err1 != nil || err2 != nil || err3 != nil {
				rt.Fatalf("%s: DeriveKeyset: %v %v %v", info.Desc, err1, err2, err3)
			}
			e1, _ := h1.Entry(0)
			e3, _ := h3.Entry(0)
			if e1 == nil || e3 == nil || !e1.Key().Equal(e3.Key()) {
				rt.Fatalf("%s: DeriveKeyset(salt) before and after a derivation with another salt gives different keys", info.Desc)
			}
		}
		p.verify("result retention calls")
		finish(p, fmt.Sprintf("alltypes/%s/%s", c, info.Type), evid.NewH().S(info.Desc).B(x).B(y).Sum(), map[string]any{"key": info.Desc, "x_len": len(x), "y_len": len(y)})
	})
}
