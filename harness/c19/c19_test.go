// Package c19 decides property C19: no Tink operation writes into caller-provided byte slices
// (neither within their length nor in their spare capacity), and returned slices never share
// memory with inputs or with key / handle internals.
package c19

import (
	"bytes"
	"fmt"
	"io"
	"testing"

	"pgregory.net/rapid"

	"github.com/tink-crypto/tink-go/v2/aead"
	aeadsubtle "github.com/tink-crypto/tink-go/v2/aead/subtle"
	"github.com/tink-crypto/tink-go/v2/core/registry"
	"github.com/tink-crypto/tink-go/v2/daead"
	daeadsubtle "github.com/tink-crypto/tink-go/v2/daead/subtle"
	"github.com/tink-crypto/tink-go/v2/hybrid"
	"github.com/tink-crypto/tink-go/v2/internal/protoserialization"
	"github.com/tink-crypto/tink-go/v2/keyset"
	"github.com/tink-crypto/tink-go/v2/mac"
	macsubtle "github.com/tink-crypto/tink-go/v2/mac/subtle"
	"github.com/tink-crypto/tink-go/v2/prf"
	prfsubtle "github.com/tink-crypto/tink-go/v2/prf/subtle"
	tinkpb "github.com/tink-crypto/tink-go/v2/proto/tink_go_proto"
	"github.com/tink-crypto/tink-go/v2/signature"
	sigsubtle "github.com/tink-crypto/tink-go/v2/signature/subtle"
	"github.com/tink-crypto/tink-go/v2/streamingaead"
	"github.com/tink-crypto/tink-go/v2/tink"
	"github.com/tink-crypto/tink-go/v2/verifharness/internal/aeadcase"
	"github.com/tink-crypto/tink-go/v2/verifharness/internal/detrand"
	"github.com/tink-crypto/tink-go/v2/verifharness/internal/evid"
	"github.com/tink-crypto/tink-go/v2/verifharness/internal/gen"
	"github.com/tink-crypto/tink-go/v2/verifharness/internal/kf"
	"github.com/tink-crypto/tink-go/v2/verifharness/internal/legacykm"
	"github.com/tink-crypto/tink-go/v2/verifharness/internal/tk"
)

const propID = "C19"

func TestMain(m *testing.M) {
	legacykm.Register()
	evid.Main(m)
}

var prefixTypes = []tinkpb.OutputPrefixType{tinkpb.OutputPrefixType_TINK, tinkpb.OutputPrefixType_LEGACY, tinkpb.OutputPrefixType_CRUNCHY, tinkpb.OutputPrefixType_RAW}

func finish(p *probe, class string, fp uint64, sample any) {
	evid.Case(class, p.spares > 0, fp, func() any { return sample })
}

// legacyHandle builds a handle over a harness-owned (legacy, registry-provided) key type: one key,
// or - every second case - two keys, a RAW one placed first and the drawn one second as the
// primary, so that the wrapper's trial loop over the RAW keys (and, on failing calls, over the
// prefix-matching key AND the RAW keys) runs with the caller's buffers. shape is "1key" or
// "2keys(RAW+<prefix type of the primary>)".
func legacyHandle(rt *rapid.T, url string, keyLen int) (h *keyset.Handle, desc, shape string) {
	pt := gen.Pick(rt, "prefixtype", prefixTypes)
	id := gen.KeyID(rt, "id")
	if id == 0 {
		id = 1
	}
	kb := gen.BytesN(rt, "legacykey", keyLen)
	ks := &tinkpb.Keyset{PrimaryKeyId: id, Key: []*tinkpb.Keyset_Key{legacykm.Key(url, kb, legacykm.Material(url), pt, id, tinkpb.KeyStatusType_ENABLED)}}
	desc = fmt.Sprintf("prefix=%v id=%#x key=%x", pt, id, kb)
	shape = "1key"
	if gen.OneIn(rt, "second_key", 2) {
		id2 := id ^ 0x40
		if id2 == 0 {
			id2 = 2
		}
		kb2 := gen.BytesN(rt, "legacykey2", keyLen)
		ks.Key = []*tinkpb.Keyset_Key{legacykm.Key(url, kb2, legacykm.Material(url), tinkpb.OutputPrefixType_RAW, id2, tinkpb.KeyStatusType_ENABLED), ks.Key[0]}
		desc += fmt.Sprintf(" (second entry, primary) after a RAW key id=%#x key=%x", id2, kb2)
		shape = fmt.Sprintf("2keys(RAW+%v)", pt)
	}
	h, err := legacykm.HandleFromProto(ks)
	if err != nil {
		rt.Fatalf("legacy handle (%s): %v", url, err)
	}
	return h, desc, shape
}

// candidates for the failing paths: C19 holds for calls that return an error too (seeded changes
// C01c and C06b wrote on such paths). Whether the call fails is not this property's business: the
// verdicts are counted only.
func flipped(b []byte, i int) []byte {
	out := bytes.Clone(b)
	if len(out) == 0 {
		return []byte{1}
	}
	out[(i%len(out)+len(out))%len(out)] ^= 1
	return out
}

func extended(b []byte) []byte { return append(bytes.Clone(b), 0x01) }

func failing(err error) {
	evid.Add("failing_path_calls", 1)
	if err != nil {
		evid.Add("failing_path_calls_rejected", 1)
	}
}

type dekTemplate struct {
	name string
	kt   func() *tinkpb.KeyTemplate
}

var dekTemplates = []dekTemplate{
	{"AES128_GCM", aead.AES128GCMKeyTemplate}, {"AES256_GCM", aead.AES256GCMKeyTemplate},
	{"AES128_CTR_HMAC_SHA256", aead.AES128CTRHMACSHA256KeyTemplate}, {"CHACHA20_POLY1305", aead.ChaCha20Poly1305KeyTemplate},
	{"XCHACHA20_POLY1305", aead.XChaCha20Poly1305KeyTemplate}, {"AES128_GCM_SIV", aead.AES128GCMSIVKeyTemplate},
}

var aeadKinds = []string{"legacy", "case", "case", "case", "envelope", "registry.Primitive", "registry.PrimitiveFromKeyData"}

// TestAEADBuffers: Encrypt / Decrypt of every AEAD type, variant and route (incl. the per-key full
// primitive and the key manager's primitive), the legacy adapter, the KMS envelope AEAD through its
// three routes, and primitives obtained from registry.Primitive / PrimitiveFromKeyData (whose
// serialized-key argument is a caller buffer as well).
func TestAEADBuffers(t *testing.T) {
	rapid.Check(t, func(rt *rapid.T) {
		detrand.Seed(rapid.Uint64().Draw(rt, "entropy"))
		p := &probe{t: rt}
		var a tink.AEAD
		var desc, class string
		kind := gen.Pick(rt, "kind", aeadKinds)
		switch kind {
		case "legacy":
			h, d, shape := legacyHandle(rt, legacykm.AeadURL, 32)
			a, desc, class = tk.Must(aead.New(h)), "legacy AEAD adapter "+d, "legacy/"+shape
		case "case":
			c := aeadcase.DrawTypeRoutes(rt, gen.Pick(rt, "aeadtype", aeadcase.Types), aeadcase.RoutesAll)
			a, desc, class = c.P, c.String(), c.Type+"/"+c.Variant+"/"+c.Route
		case "envelope":
			api := gen.Pick(rt, "api", tk.EnvelopeAPIsAll)
			dek := gen.Pick(rt, "dek", dekTemplates)
			kekKey := gen.BytesN(rt, "kekkey", 32)
			env, err := tk.Envelope(api, dek.kt(), tk.Must(aeadsubtle.NewAESGCM(kekKey)))
			if err != nil {
				rt.Fatalf("KMS envelope AEAD (%s, DEK %s): %v", api, dek.name, err)
			}
			a, desc, class = env, fmt.Sprintf("KMS envelope AEAD api=%s DEK=%s KEK=AES256-GCM %x", api, dek.name, kekKey), "envelope/"+api+"/"+dek.name
		default:
			// the serialized key is an argument too: it lives in an arena that is overwritten below
			c := aeadcase.DrawTypeRoutes(rt, gen.Pick(rt, "aeadtype", aeadcase.Types), []string{"handle"})
			ks, err := protoserialization.SerializeKey(c.K)
			if err != nil {
				rt.Fatalf("%v: SerializeKey: %v", c, err)
			}
			kd := ks.KeyData()
			val := p.in("serialized key", kd.GetValue())
			var v any
			if kind == "registry.Primitive" {
				v, err = registry.Primitive(kd.GetTypeUrl(), val)
			} else {
				v, err = registry.PrimitiveFromKeyData(&tinkpb.KeyData{TypeUrl: kd.GetTypeUrl(), Value: val, KeyMaterialType: kd.GetKeyMaterialType()})
			}
			if err != nil {
				rt.Fatalf("%s for the serialization of %v: %v", kind, c, err)
			}
			var ok bool
			if a, ok = v.(tink.AEAD); !ok {
				rt.Fatalf("%s for the serialization of %v: %T is not a tink.AEAD", kind, c, v)
			}
			desc, class = kind+"(serialized key in a caller buffer) of "+c.String(), kind+"/"+c.Type
			p.desc = desc
			p.verify(kind)
		}
		p.desc = desc
		pt := gen.Bytes(rt, "pt", 300)
		ad := gen.BytesOrNil(rt, "ad", 100)
		ptIn, adIn := p.in("plaintext", pt), p.in("associated data", ad)
		ct, err := a.Encrypt(ptIn, adIn)
		if err != nil {
			rt.Fatalf("%s: Encrypt: %v", desc, err)
		}
		p.verify("Encrypt")
		p.out("Encrypt", "ciphertext", ct)
		saved := append([]byte{}, ct...)
		ctIn, adIn2 := p.in("ciphertext", ct), p.in("associated data (decrypt)", ad)
		got, err := a.Decrypt(ctIn, adIn2)
		if err != nil || !bytes.Equal(got, pt) {
			rt.Fatalf("%s: Decrypt: %v", desc, err)
		}
		p.verify("Decrypt")
		p.out("Decrypt", "plaintext", got)
		// failing Decrypt calls must not write either
		for i, bad := range [][]byte{flipped(saved, -1), flipped(saved, 0), flipped(saved, len(saved)/2), saved[:len(saved)/2], saved[:min(len(saved), 4)], extended(saved)} {
			_, err := a.Decrypt(p.in(fmt.Sprintf("modified ciphertext #%d", i), bad), adIn2)
			failing(err)
			p.verify(fmt.Sprintf("Decrypt(modified ciphertext #%d)", i))
		}
		_, err = a.Decrypt(ctIn, p.in("other associated data", extended(ad)))
		failing(err)
		p.verify("Decrypt(other associated data)")
		// caller reuses / mutates everything it passed in or got back: later results unaffected
		p.scribble()
		flipAll(ct)
		flipAll(got)
		got2, err := a.Decrypt(saved, ad)
		if err != nil || !bytes.Equal(got2, pt) {
			rt.Fatalf("%s: after the caller mutated earlier inputs and outputs, Decrypt of the saved ciphertext gives %v", desc, err)
		}
		finish(p, "aead/"+class, evid.NewH().S(desc).B(pt).B(ad).Sum(), map[string]any{"primitive": desc, "pt_len": len(pt), "ad_len": len(ad)})
	})
}

type macMaker struct {
	name string
	f    func(rt *rapid.T) (tink.MAC, string, string)
}

func macMakers() []macMaker {
	return []macMaker{
		{"legacy", func(rt *rapid.T) (tink.MAC, string, string) {
			h, d, shape := legacyHandle(rt, legacykm.MacURL, 32)
			return tk.Must(mac.New(h)), "legacy MAC adapter " + d, "/" + shape
		}},
		{"hmac-template", func(rt *rapid.T) (tink.MAC, string, string) {
			kt := gen.Pick(rt, "template", []*tinkpb.KeyTemplate{mac.HMACSHA256Tag128KeyTemplate(), mac.HMACSHA512Tag512KeyTemplate(), mac.AESCMACTag128KeyTemplate()})
			kt.OutputPrefixType = gen.Pick(rt, "prefixtype", prefixTypes)
			h := tk.Must(keyset.NewHandle(kt))
			return tk.Must(mac.New(h)), fmt.Sprintf("MAC %s prefix=%v", kt.TypeUrl, kt.OutputPrefixType), fmt.Sprintf("/%v", kt.OutputPrefixType)
		}},
		{"subtle-hmac", func(rt *rapid.T) (tink.MAC, string, string) {
			k := gen.BytesN(rt, "key", 32)
			return tk.Must(macsubtle.NewHMAC("SHA256", k, 16)), fmt.Sprintf("subtle HMAC key=%x", k), ""
		}},
		{"subtle-cmac", func(rt *rapid.T) (tink.MAC, string, string) {
			k := gen.BytesN(rt, "key", 32)
			return tk.Must(macsubtle.NewAESCMAC(k, 16)), fmt.Sprintf("subtle CMAC key=%x", k), ""
		}},
	}
}

func TestMACBuffers(t *testing.T) {
	makers := macMakers()
	rapid.Check(t, func(rt *rapid.T) {
		detrand.Seed(rapid.Uint64().Draw(rt, "entropy"))
		mk := gen.Pick(rt, "maker", makers)
		m, desc, shape := mk.f(rt)
		p := &probe{t: rt, desc: desc}
		msg := gen.Bytes(rt, "msg", 200)
		in := p.in("message", msg)
		tag, err := m.ComputeMAC(in)
		if err != nil {
			rt.Fatalf("%s: ComputeMAC: %v", desc, err)
		}
		p.verify("ComputeMAC")
		p.out("ComputeMAC", "tag", tag)
		saved := append([]byte{}, tag...)
		tagIn, msgIn := p.in("tag", tag), p.in("message (verify)", msg)
		if err := m.VerifyMAC(tagIn, msgIn); err != nil {
			rt.Fatalf("%s: VerifyMAC: %v", desc, err)
		}
		p.verify("VerifyMAC")
		// failing VerifyMAC calls: short tag, wrong tags of the right length, another message
		for i, bad := range [][]byte{saved[:len(saved)/2], flipped(saved, -1), flipped(saved, 0), flipped(saved, len(saved)/2), extended(saved)} {
			failing(m.VerifyMAC(p.in(fmt.Sprintf("wrong tag #%d", i), bad), msgIn))
			p.verify(fmt.Sprintf("VerifyMAC(wrong tag #%d)", i))
		}
		failing(m.VerifyMAC(tagIn, p.in("other message", extended(msg))))
		p.verify("VerifyMAC(other message)")
		p.scribble()
		flipAll(tag)
		tag2, err := m.ComputeMAC(msg)
		if err != nil || !bytes.Equal(tag2, saved) {
			rt.Fatalf("%s: ComputeMAC changed after the caller mutated earlier inputs/outputs: %x vs %x", desc, tag2, saved)
		}
		finish(p, "mac/"+mk.name+shape, evid.NewH().S(desc).B(msg).Sum(), map[string]any{"primitive": desc, "msg_len": len(msg)})
	})
}

var signatureTemplates = []func() *tinkpb.KeyTemplate{signature.ED25519KeyTemplate, signature.ECDSAP256KeyTemplate, signature.ECDSAP256RawKeyTemplate, signature.ED25519KeyWithoutPrefixTemplate}

func TestSignatureBuffers(t *testing.T) {
	rapid.Check(t, func(rt *rapid.T) {
		detrand.Seed(rapid.Uint64().Draw(rt, "entropy"))
		var h *keyset.Handle
		var desc string
		kind := gen.Pick(rt, "kind", []string{"legacy", "template", "template-legacy-prefix"})
		class := kind
		switch kind {
		case "legacy":
			var d, shape string
			h, d, shape = legacyHandle(rt, legacykm.SignerURL, 32)
			desc, class = "legacy signer/verifier adapters (key = seed) "+d, kind+"/"+shape
		default:
			// a template of the case's own (the functions return fresh messages): writing the prefix
			// type into a template shared by all cases made cases depend on earlier ones
			ti := gen.Uniform(rt, "template", len(signatureTemplates))
			kt := signatureTemplates[ti]()
			if kind == "template-legacy-prefix" {
				kt.OutputPrefixType = gen.Pick(rt, "prefixtype", []tinkpb.OutputPrefixType{tinkpb.OutputPrefixType_LEGACY, tinkpb.OutputPrefixType_CRUNCHY})
			}
			h = tk.Must(keyset.NewHandle(kt))
			desc = fmt.Sprintf("signature %s prefix=%v", kt.TypeUrl, kt.OutputPrefixType)
			class = fmt.Sprintf("%s/%s/%v", kind, kt.TypeUrl[len("type.googleapis.com/google.crypto.tink."):], kt.OutputPrefixType)
		}
		s := tk.Must(signature.NewSigner(h))
		v := tk.Must(signature.NewVerifier(tk.Must(h.Public())))
		p := &probe{t: rt, desc: desc}
		msg := gen.Bytes(rt, "msg", 200)
		sig, err := s.Sign(p.in("message", msg))
		if err != nil {
			rt.Fatalf("%s: Sign: %v", desc, err)
		}
		p.verify("Sign")
		p.out("Sign", "signature", sig)
		saved := append([]byte{}, sig...)
		msgIn := p.in("message (verify)", msg)
		if err := v.Verify(p.in("signature", sig), msgIn); err != nil {
			rt.Fatalf("%s: Verify: %v", desc, err)
		}
		p.verify("Verify")
		for i, bad := range [][]byte{saved[:len(saved)-1], flipped(saved, -1), flipped(saved, 0), flipped(saved, len(saved)/2), extended(saved)} {
			failing(v.Verify(p.in(fmt.Sprintf("wrong signature #%d", i), bad), msgIn))
			p.verify(fmt.Sprintf("Verify(wrong signature #%d)", i))
		}
		failing(v.Verify(p.in("signature 2", saved), p.in("other message", extended(msg))))
		p.verify("Verify(other message)")
		p.scribble()
		flipAll(sig)
		if err := v.Verify(saved, msg); err != nil {
			rt.Fatalf("%s: saved signature no longer verifies after the caller mutated earlier buffers: %v", desc, err)
		}
		finish(p, "signature/"+class, evid.NewH().S(desc).B(msg).Sum(), map[string]any{"primitive": desc, "msg_len": len(msg)})
	})
}

func TestDAEADBuffers(t *testing.T) {
	rapid.Check(t, func(rt *rapid.T) {
		detrand.Seed(rapid.Uint64().Draw(rt, "entropy"))
		var d tink.DeterministicAEAD
		var desc string
		kind := gen.Pick(rt, "kind", []string{"legacy", "template", "subtle"})
		class := kind
		switch kind {
		case "legacy":
			h, ds, shape := legacyHandle(rt, legacykm.DaeadURL, 64)
			d, desc, class = tk.Must(daead.New(h)), "legacy DAEAD adapter "+ds, kind+"/"+shape
		case "template":
			kt := daead.AESSIVKeyTemplate()
			kt.OutputPrefixType = gen.Pick(rt, "prefixtype", prefixTypes)
			d, desc = tk.Must(daead.New(tk.Must(keyset.NewHandle(kt)))), fmt.Sprintf("AES-SIV prefix=%v", kt.OutputPrefixType)
			class = fmt.Sprintf("%s/%v", kind, kt.OutputPrefixType)
		case "subtle":
			k := gen.BytesN(rt, "key", 64)
			d, desc = tk.Must(daeadsubtle.NewAESSIV(k)), fmt.Sprintf("subtle AES-SIV key=%x", k)
		}
		p := &probe{t: rt, desc: desc}
		pt := gen.Bytes(rt, "pt", 200)
		ad := gen.BytesOrNil(rt, "ad", 80)
		ct, err := d.EncryptDeterministically(p.in("plaintext", pt), p.in("associated data", ad))
		if err != nil {
			rt.Fatalf("%s: Encrypt: %v", desc, err)
		}
		p.verify("EncryptDeterministically")
		p.out("EncryptDeterministically", "ciphertext", ct)
		saved := append([]byte{}, ct...)
		adIn := p.in("associated data (decrypt)", ad)
		got, err := d.DecryptDeterministically(p.in("ciphertext", ct), adIn)
		if err != nil || !bytes.Equal(got, pt) {
			rt.Fatalf("%s: Decrypt: %v", desc, err)
		}
		p.verify("DecryptDeterministically")
		p.out("DecryptDeterministically", "plaintext", got)
		// rejected DecryptDeterministically calls must not write either
		for i, bad := range [][]byte{flipped(saved, -1), flipped(saved, 0), flipped(saved, len(saved)/2), saved[:len(saved)/2], saved[:min(len(saved), 4)], extended(saved)} {
			_, err := d.DecryptDeterministically(p.in(fmt.Sprintf("modified ciphertext #%d", i), bad), adIn)
			failing(err)
			p.verify(fmt.Sprintf("DecryptDeterministically(modified ciphertext #%d)", i))
		}
		_, err = d.DecryptDeterministically(p.in("ciphertext 2", saved), p.in("other associated data", extended(ad)))
		failing(err)
		p.verify("DecryptDeterministically(other associated data)")
		p.scribble()
		flipAll(ct)
		flipAll(got)
		ct2, err := d.EncryptDeterministically(pt, ad)
		if err != nil || !bytes.Equal(ct2, saved) {
			rt.Fatalf("%s: deterministic ciphertext changed after the caller mutated earlier buffers", desc)
		}
		finish(p, "daead/"+class, evid.NewH().S(desc).B(pt).B(ad).Sum(), map[string]any{"primitive": desc, "pt_len": len(pt)})
	})
}

var hybridTemplates = []func() *tinkpb.KeyTemplate{hybrid.DHKEM_X25519_HKDF_SHA256_HKDF_SHA256_AES_128_GCM_Key_Template, hybrid.DHKEM_P256_HKDF_SHA256_HKDF_SHA256_AES_256_GCM_Raw_Key_Template, hybrid.ECIESHKDFAES128GCMKeyTemplate, hybrid.ECIESHKDFAES128CTRHMACSHA256KeyTemplate}

func TestHybridBuffers(t *testing.T) {
	rapid.Check(t, func(rt *rapid.T) {
		detrand.Seed(rapid.Uint64().Draw(rt, "entropy"))
		var h *keyset.Handle
		var desc string
		kind := gen.Pick(rt, "kind", []string{"legacy", "template"})
		class := kind
		if kind == "legacy" {
			var d, shape string
			h, d, shape = legacyHandle(rt, legacykm.HybridPrivURL, 32)
			desc, class = "legacy hybrid adapters "+d, kind+"/"+shape
		} else {
			ti := gen.Uniform(rt, "template", len(hybridTemplates))
			kt := hybridTemplates[ti]()
			h = tk.Must(keyset.NewHandle(kt))
			desc = fmt.Sprintf("hybrid %s prefix=%v", kt.TypeUrl, kt.OutputPrefixType)
			class = fmt.Sprintf("%s/%d", kind, ti)
		}
		enc := tk.Must(hybrid.NewHybridEncrypt(tk.Must(h.Public())))
		dec := tk.Must(hybrid.NewHybridDecrypt(h))
		p := &probe{t: rt, desc: desc}
		pt := gen.Bytes(rt, "pt", 200)
		info := gen.BytesOrNil(rt, "info", 80)
		ct, err := enc.Encrypt(p.in("plaintext", pt), p.in("context info", info))
		if err != nil {
			rt.Fatalf("%s: Encrypt: %v", desc, err)
		}
		p.verify("Encrypt")
		p.out("Encrypt", "ciphertext", ct)
		saved := append([]byte{}, ct...)
		infoIn := p.in("context info (decrypt)", info)
		got, err := dec.Decrypt(p.in("ciphertext", ct), infoIn)
		if err != nil || !bytes.Equal(got, pt) {
			rt.Fatalf("%s: Decrypt: %v", desc, err)
		}
		p.verify("Decrypt")
		p.out("Decrypt", "plaintext", got)
		// rejected Decrypt calls (prefix, encapsulated key, payload, length, context info) must not write either
		for i, bad := range [][]byte{flipped(saved, -1), flipped(saved, 0), flipped(saved, 7), flipped(saved, len(saved)/2), saved[:len(saved)/2], saved[:min(len(saved), 4)], extended(saved)} {
			_, err := dec.Decrypt(p.in(fmt.Sprintf("modified ciphertext #%d", i), bad), infoIn)
			failing(err)
			p.verify(fmt.Sprintf("Decrypt(modified ciphertext #%d)", i))
		}
		_, err = dec.Decrypt(p.in("ciphertext 2", saved), p.in("other context info", extended(info)))
		failing(err)
		p.verify("Decrypt(other context info)")
		p.scribble()
		flipAll(ct)
		flipAll(got)
		got2, err := dec.Decrypt(saved, info)
		if err != nil || !bytes.Equal(got2, pt) {
			rt.Fatalf("%s: saved ciphertext no longer decrypts after the caller mutated earlier buffers: %v", desc, err)
		}
		finish(p, "hybrid/"+class, evid.NewH().S(desc).B(pt).B(info).Sum(), map[string]any{"primitive": desc, "pt_len": len(pt)})
	})
}

func TestPRFAndStreamingBuffers(t *testing.T) {
	rapid.Check(t, func(rt *rapid.T) {
		detrand.Seed(rapid.Uint64().Draw(rt, "entropy"))
		kind := gen.Pick(rt, "kind", []string{"prf", "streaming"})
		if kind == "prf" {
			kt := gen.Pick(rt, "template", []*tinkpb.KeyTemplate{prf.HMACSHA256PRFKeyTemplate(), prf.HKDFSHA256PRFKeyTemplate(), prf.AESCMACPRFKeyTemplate()})
			set := tk.Must(prf.NewPRFSet(tk.Must(keyset.NewHandle(kt))))
			desc := "PRF " + kt.TypeUrl
			p := &probe{t: rt, desc: desc}
			in := gen.Bytes(rt, "input", 200)
			out, err := set.ComputePrimaryPRF(p.in("input", in), 16)
			if err != nil {
				rt.Fatalf("%s: %v", desc, err)
			}
			p.verify("ComputePrimaryPRF")
			p.out("ComputePrimaryPRF", "output", out)
			saved := append([]byte{}, out...)
			// a refused request (more output than the PRF can give)
			_, err = set.ComputePrimaryPRF(p.in("input 2", in), 1<<20)
			failing(err)
			p.verify("ComputePrimaryPRF(over-long request)")
			p.scribble()
			flipAll(out)
			out2, err := set.ComputePrimaryPRF(in, 16)
			if err != nil || !bytes.Equal(out2, saved) {
				rt.Fatalf("%s: PRF output changed after the caller mutated earlier buffers", desc)
			}
			finish(p, "prf/"+kt.TypeUrl[len("type.googleapis.com/google.crypto.tink."):], evid.NewH().S(desc).B(in).Sum(), map[string]any{"primitive": desc, "in_len": len(in)})
			return
		}
		kt := gen.Pick(rt, "template", []*tinkpb.KeyTemplate{streamingaead.AES128GCMHKDF4KBKeyTemplate(), streamingaead.AES128CTRHMACSHA256Segment4KBKeyTemplate()})
		sa := tk.Must(streamingaead.New(tk.Must(keyset.NewHandle(kt))))
		desc := "streaming " + kt.TypeUrl
		p := &probe{t: rt, desc: desc}
		aad := gen.BytesOrNil(rt, "aad", 40)
		var buf bytes.Buffer
		w, err := sa.NewEncryptingWriter(&buf, p.in("aad", aad))
		if err != nil {
			rt.Fatalf("%s: %v", desc, err)
		}
		var all []byte
		nw := rapid.IntRange(1, 4).Draw(rt, "writes")
		for i := 0; i < nw; i++ {
			chunk := gen.Bytes(rt, "chunk", 6000)
			all = append(all, chunk...)
			if _, err := w.Write(p.in(fmt.Sprintf("write #%d", i), chunk)); err != nil {
				rt.Fatalf("%s: Write: %v", desc, err)
			}
			p.verify("Write")
			p.scribble() // the caller may reuse its buffer right after Write returns
		}
		if err := w.Close(); err != nil {
			rt.Fatalf("%s: Close: %v", desc, err)
		}
		p.verify("Close")
		p.arenas = nil // the written chunks are done with (keeps the read loops flat)
		stream := bytes.Clone(buf.Bytes())
		r, err := sa.NewDecryptingReader(bytes.NewReader(stream), p.in("aad (read)", aad))
		if err != nil {
			rt.Fatalf("%s: %v", desc, err)
		}
		got, err := p.readStream("Read", r, len(all))
		if err != io.EOF || !bytes.Equal(got, all) {
			rt.Fatalf("%s: stream written from reused caller buffers, read back into caller buffers, gives %d bytes and %v, want the %d bytes written and io.EOF", desc, len(got), err, len(all))
		}
		// Read of a corrupted stream (one byte changed, or cut): the calls that fail, and those before
		// them, write inside dst[:len] only
		bad := flipped(stream, rapid.IntRange(0, len(stream)-1).Draw(rt, "corrupt_at"))
		if gen.OneIn(rt, "cut", 3) {
			bad = stream[:rapid.IntRange(0, len(stream)-1).Draw(rt, "cut_at")]
		}
		if r, err := sa.NewDecryptingReader(bytes.NewReader(bad), p.in("aad (read 2)", aad)); err == nil {
			_, err := p.readStream("Read(corrupted stream)", r, len(all))
			if err == io.EOF {
				evid.Add("observed_not_asserted/C07_corrupted_stream_read_to_clean_eof", 1)
			}
			failing(err)
		} else {
			failing(err)
		}
		p.verify("reads")
		finish(p, "streaming/"+kt.TypeUrl[len("type.googleapis.com/google.crypto.tink."):], evid.NewH().S(desc).B(all).Sum(), map[string]any{"primitive": desc, "total": len(all), "writes": nw})
	})
}

// subtleCtor: constructors that take raw key bytes. After construction the caller overwrites its
// key buffer; later outputs must not change (no shared memory with the caller).
type subtleCtor struct {
	name   string
	keyLen int
	salt   bool
	build  func(key, salt []byte) (func(in []byte) ([]byte, error), error)
	// derive, when set, turns the drawn bytes into the bytes handed to the constructor (a public key
	// from a seed, a scalar in range); buildWith additionally receives the drawn bytes.
	derive    func(drawn []byte) []byte
	buildWith func(drawn, key, salt []byte) (func(in []byte) ([]byte, error), error)
}

func subtleCtors() []subtleCtor {
	macFn := func(m tink.MAC, err error) (func([]byte) ([]byte, error), error) {
		if err != nil {
			return nil, err
		}
		return m.ComputeMAC, nil
	}
	return []subtleCtor{
		{name: "mac/subtle.NewHMAC", keyLen: 32, salt: false, build: func(k, _ []byte) (func([]byte) ([]byte, error), error) {
			return macFn(macsubtle.NewHMAC("SHA256", k, 32))
		}},
		{name: "mac/subtle.NewAESCMAC", keyLen: 32, salt: false, build: func(k, _ []byte) (func([]byte) ([]byte, error), error) { return macFn(macsubtle.NewAESCMAC(k, 16)) }},
		{name: "daead/subtle.NewAESSIV", keyLen: 64, salt: false, build: func(k, _ []byte) (func([]byte) ([]byte, error), error) {
			d, err := daeadsubtle.NewAESSIV(k)
			if err != nil {
				return nil, err
			}
			return func(in []byte) ([]byte, error) { return d.EncryptDeterministically(in, nil) }, nil
		}},
		{name: "prf/subtle.NewHMACPRF", keyLen: 32, salt: false, build: func(k, _ []byte) (func([]byte) ([]byte, error), error) {
			p, err := prfsubtle.NewHMACPRF("SHA256", k)
			if err != nil {
				return nil, err
			}
			return func(in []byte) ([]byte, error) { return p.ComputePRF(in, 32) }, nil
		}},
		{name: "prf/subtle.NewHKDFPRF", keyLen: 32, salt: true, build: func(k, s []byte) (func([]byte) ([]byte, error), error) {
			p, err := prfsubtle.NewHKDFPRF("SHA256", k, s)
			if err != nil {
				return nil, err
			}
			return func(in []byte) ([]byte, error) { return p.ComputePRF(in, 48) }, nil
		}},
		{name: "prf/subtle.NewAESCMACPRF", keyLen: 32, salt: false, build: func(k, _ []byte) (func([]byte) ([]byte, error), error) {
			p, err := prfsubtle.NewAESCMACPRF(k)
			if err != nil {
				return nil, err
			}
			return func(in []byte) ([]byte, error) { return p.ComputePRF(in, 16) }, nil
		}},
		{name: "signature/subtle.NewED25519Signer", keyLen: 32, salt: false, build: func(k, _ []byte) (func([]byte) ([]byte, error), error) {
			s, err := sigsubtle.NewED25519Signer(k)
			if err != nil {
				return nil, err
			}
			return s.Sign, nil
		}},
	}
}

func sitesig(name string) string { return "key-aliasing:" + name }

func TestSubtleConstructorsCopyKeys(t *testing.T) {
	// (the aead/subtle constructors are covered by TestAEADKeysCopied; placeholders for them used to
	// sit in this list and discarded a quarter of the draws)
	ctors := append(subtleCtors(), moreSubtleCtors()...)
	rapid.Check(t, func(rt *rapid.T) {
		detrand.Seed(rapid.Uint64().Draw(rt, "entropy"))
		c := gen.Pick(rt, "ctor", ctors)
		p := &probe{t: rt, desc: c.name}
		key := gen.BytesN(rt, "key", c.keyLen)
		var salt []byte
		if c.salt {
			salt = gen.BytesN(rt, "salt", rapid.IntRange(1, 40).Draw(rt, "saltlen"))
		}
		drawn := key
		if c.derive != nil {
			key = c.derive(drawn)
		}
		keyIn, saltIn := p.in("key", key), p.in("salt", salt)
		var f func([]byte) ([]byte, error)
		var err error
		if c.buildWith != nil {
			f, err = c.buildWith(drawn, keyIn, saltIn)
		} else {
			f, err = c.build(keyIn, saltIn)
		}
		if err != nil {
			rt.Fatalf("%s: %v", c.name, err)
		}
		p.verify(c.name)
		in := gen.Bytes(rt, "input", 100)
		before, err := f(in)
		if err != nil {
			rt.Fatalf("%s: %v", c.name, err)
		}
		p.scribble() // the caller wipes / reuses its key buffer
		after, err := f(in)
		if err != nil {
			rt.Fatalf("%s: %v", c.name, err)
		}
		deterministic := c.name != "never"
		if deterministic && !bytes.Equal(before, after) {
			if kf.Listed(propID, sitesig(c.name)) {
				kf.Report(propID, sitesig(c.name))
				evid.Add("excluded_known", 1)
			} else {
				rt.Fatalf("%s keeps the caller's key (or salt) slice: after the caller overwrote its buffers the primitive's output for input %x changed from %q to %q", c.name, in, before, after)
			}
		}
		finish(p, "subtle-ctor/"+c.name, evid.NewH().S(c.name).B(key).B(salt).B(in).Sum(), map[string]any{"constructor": c.name, "key": gen.Hex(key)})
	})
}

// subtleAEADTypes: the AEAD types with an aead/subtle constructor.
var subtleAEADTypes = []string{"AESGCM", "AESCTRHMAC", "AESGCMSIV", "CHACHA20POLY1305", "XCHACHA20POLY1305"}

// TestAEADKeysCopied: the aead/subtle constructors and key objects do not alias the caller's key.
func TestAEADKeysCopied(t *testing.T) {
	rapid.Check(t, func(rt *rapid.T) {
		detrand.Seed(rapid.Uint64().Draw(rt, "entropy"))
		// The caller's byte slice reaches the library directly only on the "subtle" route (four cases in
		// five); on the key-object routes it passes through secretdata.NewBytesFromData first, which
		// TestConstructorsCopyInputs examines on its own (one case in five keeps the whole path).
		var c *aeadcase.Case
		if gen.OneIn(rt, "keyobject_route", 5) {
			c = aeadcase.DrawTypeRoutes(rt, gen.Pick(rt, "aeadtype", aeadcase.Types), []string{"handle", "key"})
		} else {
			c = aeadcase.DrawTypeRoutes(rt, gen.Pick(rt, "aeadtype", subtleAEADTypes), []string{"subtle"})
		}
		// rebuild the same configuration from arena-backed key bytes, then scribble
		p := &probe{t: rt, desc: c.String()}
		d := *c
		d.Key = p.in("key", c.Key)
		d.MacKey = p.in("mac key", c.MacKey)
		if err := d.Rebuild(); err != nil {
			rt.Fatalf("%v: %v", c, err)
		}
		p.verify("constructor")
		pt := gen.Bytes(rt, "pt", 64)
		p.scribble()
		ct, err := d.P.Encrypt(pt, nil)
		if err != nil {
			rt.Fatalf("%v: %v", c, err)
		}
		// c holds the pristine key: it must still decrypt what d (whose caller buffer was overwritten) produced
		got, err := c.P.Decrypt(ct, nil)
		if err != nil || !bytes.Equal(got, pt) {
			sig := sitesig("aead/" + c.Type + "/" + c.Route)
			if kf.Listed(propID, sig) {
				kf.Report(propID, sig)
				evid.Add("excluded_known", 1)
			} else {
				rt.Fatalf("%v: primitive built from a key buffer that the caller later overwrote no longer interoperates with a primitive built from a pristine copy (route %s): %v", c, c.Route, err)
			}
		}
		finish(p, "aead-key/"+c.Type+"/"+c.Route, evid.NewH().S(c.String()).B(pt).Sum(), map[string]any{"case": c.String()})
	})
}
