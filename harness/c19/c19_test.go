// Package c19 decides property C19: no Tink operation writes into caller-provided byte slices
// (neither within their length nor in their spare capacity), and returned slices never share
// memory with inputs or with key / handle internals.
package c19

import (
	"bytes"
	"fmt"
	"testing"

	"pgregory.net/rapid"

	"github.com/tink-crypto/tink-go/v2/aead"
	"github.com/tink-crypto/tink-go/v2/daead"
	daeadsubtle "github.com/tink-crypto/tink-go/v2/daead/subtle"
	"github.com/tink-crypto/tink-go/v2/hybrid"
	"github.com/tink-crypto/tink-go/v2/keyset"
	"github.com/tink-crypto/tink-go/v2/mac"
	macsubtle "github.com/tink-crypto/tink-go/v2/mac/subtle"
	"github.com/tink-crypto/tink-go/v2/prf"
	prfsubtle "github.com/tink-crypto/tink-go/v2/prf/subtle"
	tinkpb "github.com/tink-crypto/tink-go/v2/proto/tink_go_proto"
	"github.com/tink-crypto/tink-go/v2/signature"
	sigsubtle "github.com/tink-crypto/tink-go/v2/signature/subtle"
	"github.com/tink-crypto/tink-go/v2/streamingaead"
	"github.com/tink-crypto/tink-go/v2/tink"
	"github.com/tink-crypto/tink-go/v2/verifharness/internal/aeadcase"
	"github.com/tink-crypto/tink-go/v2/verifharness/internal/detrand"
	"github.com/tink-crypto/tink-go/v2/verifharness/internal/evid"
	"github.com/tink-crypto/tink-go/v2/verifharness/internal/gen"
	"github.com/tink-crypto/tink-go/v2/verifharness/internal/kf"
	"github.com/tink-crypto/tink-go/v2/verifharness/internal/legacykm"
	"github.com/tink-crypto/tink-go/v2/verifharness/internal/tk"
)

const propID = "C19"

func TestMain(m *testing.M) {
	legacykm.Register()
	evid.Main(m)
}

var prefixTypes = []tinkpb.OutputPrefixType{tinkpb.OutputPrefixType_TINK, tinkpb.OutputPrefixType_LEGACY, tinkpb.OutputPrefixType_CRUNCHY, tinkpb.OutputPrefixType_RAW}

func finish(p *probe, class string, fp uint64, sample any) {
	evid.Case(class, p.spares > 0, fp, func() any { return sample })
}

// legacyHandle builds a one-key handle over a harness-owned (legacy, registry-provided) key type.
func legacyHandle(rt *rapid.T, url string, keyLen int) (*keyset.Handle, []byte, tinkpb.OutputPrefixType, uint32) {
	pt := rapid.SampledFrom(prefixTypes).Draw(rt, "prefixtype")
	id := gen.KeyID(rt, "id")
	if id == 0 {
		id = 1
	}
	kb := gen.BytesN(rt, "legacykey", keyLen)
	ks := &tinkpb.Keyset{PrimaryKeyId: id, Key: []*tinkpb.Keyset_Key{legacykm.Key(url, kb, legacykm.Material(url), pt, id, tinkpb.KeyStatusType_ENABLED)}}
	h, err := legacykm.HandleFromProto(ks)
	if err != nil {
		rt.Fatalf("legacy handle (%s): %v", url, err)
	}
	return h, kb, pt, id
}

// TestAEADBuffers: Encrypt / Decrypt of every AEAD type, variant and route, plus the legacy adapter.
func TestAEADBuffers(t *testing.T) {
	rapid.Check(t, func(rt *rapid.T) {
		detrand.Seed(rapid.Uint64().Draw(rt, "entropy"))
		var a tink.AEAD
		var desc string
		if rapid.IntRange(0, 4).Draw(rt, "legacy") == 0 {
			h, kb, pt, id := legacyHandle(rt, legacykm.AeadURL, 32)
			a = tk.Must(aead.New(h))
			desc = fmt.Sprintf("legacy AEAD adapter prefix=%v id=%#x key=%x", pt, id, kb)
		} else {
			c := aeadcase.Draw(rt)
			a, desc = c.P, c.String()
		}
		p := &probe{t: rt, desc: desc}
		pt := gen.Bytes(rt, "pt", 300)
		ad := gen.BytesOrNil(rt, "ad", 100)
		ptIn, adIn := p.in("plaintext", pt), p.in("associated data", ad)
		ct, err := a.Encrypt(ptIn, adIn)
		if err != nil {
			rt.Fatalf("%s: Encrypt: %v", desc, err)
		}
		p.verify("Encrypt")
		p.out("Encrypt", "ciphertext", ct)
		saved := append([]byte{}, ct...)
		ctIn, adIn2 := p.in("ciphertext", ct), p.in("associated data (decrypt)", ad)
		got, err := a.Decrypt(ctIn, adIn2)
		if err != nil || !bytes.Equal(got, pt) {
			rt.Fatalf("%s: Decrypt: %v", desc, err)
		}
		p.verify("Decrypt")
		p.out("Decrypt", "plaintext", got)
		// a failing Decrypt must not write either
		bad := p.in("modified ciphertext", append(append([]byte{}, saved[:len(saved)-1]...), saved[len(saved)-1]^1))
		_, _ = a.Decrypt(bad, adIn2)
		p.verify("Decrypt(modified)")
		// caller reuses / mutates everything it passed in or got back: later results unaffected
		p.scribble()
		flipAll(ct)
		flipAll(got)
		got2, err := a.Decrypt(saved, ad)
		if err != nil || !bytes.Equal(got2, pt) {
			rt.Fatalf("%s: after the caller mutated earlier inputs and outputs, Decrypt of the saved ciphertext gives %v", desc, err)
		}
		finish(p, "aead/"+desc[:min(len(desc), 18)], evid.NewH().S(desc).B(pt).B(ad).Sum(), map[string]any{"primitive": desc, "pt_len": len(pt), "ad_len": len(ad)})
	})
}

type macMaker struct {
	name string
	f    func(rt *rapid.T) (tink.MAC, string)
}

func macMakers() []macMaker {
	return []macMaker{
		{"legacy", func(rt *rapid.T) (tink.MAC, string) {
			h, kb, pt, id := legacyHandle(rt, legacykm.MacURL, 32)
			return tk.Must(mac.New(h)), fmt.Sprintf("legacy MAC adapter prefix=%v id=%#x key=%x", pt, id, kb)
		}},
		{"hmac-template", func(rt *rapid.T) (tink.MAC, string) {
			kt := rapid.SampledFrom([]*tinkpb.KeyTemplate{mac.HMACSHA256Tag128KeyTemplate(), mac.HMACSHA512Tag512KeyTemplate(), mac.AESCMACTag128KeyTemplate()}).Draw(rt, "template")
			kt.OutputPrefixType = rapid.SampledFrom(prefixTypes).Draw(rt, "prefixtype")
			h := tk.Must(keyset.NewHandle(kt))
			return tk.Must(mac.New(h)), fmt.Sprintf("MAC %s prefix=%v", kt.TypeUrl, kt.OutputPrefixType)
		}},
		{"subtle-hmac", func(rt *rapid.T) (tink.MAC, string) {
			k := gen.BytesN(rt, "key", 32)
			return tk.Must(macsubtle.NewHMAC("SHA256", k, 16)), fmt.Sprintf("subtle HMAC key=%x", k)
		}},
		{"subtle-cmac", func(rt *rapid.T) (tink.MAC, string) {
			k := gen.BytesN(rt, "key", 32)
			return tk.Must(macsubtle.NewAESCMAC(k, 16)), fmt.Sprintf("subtle CMAC key=%x", k)
		}},
	}
}

func TestMACBuffers(t *testing.T) {
	makers := macMakers()
	rapid.Check(t, func(rt *rapid.T) {
		detrand.Seed(rapid.Uint64().Draw(rt, "entropy"))
		mk := rapid.SampledFrom(makers).Draw(rt, "maker")
		m, desc := mk.f(rt)
		p := &probe{t: rt, desc: desc}
		msg := gen.Bytes(rt, "msg", 200)
		in := p.in("message", msg)
		tag, err := m.ComputeMAC(in)
		if err != nil {
			rt.Fatalf("%s: ComputeMAC: %v", desc, err)
		}
		p.verify("ComputeMAC")
		p.out("ComputeMAC", "tag", tag)
		saved := append([]byte{}, tag...)
		tagIn, msgIn := p.in("tag", tag), p.in("message (verify)", msg)
		if err := m.VerifyMAC(tagIn, msgIn); err != nil {
			rt.Fatalf("%s: VerifyMAC: %v", desc, err)
		}
		p.verify("VerifyMAC")
		_ = m.VerifyMAC(p.in("short tag", saved[:len(saved)/2]), msgIn)
		p.verify("VerifyMAC(short)")
		p.scribble()
		flipAll(tag)
		tag2, err := m.ComputeMAC(msg)
		if err != nil || !bytes.Equal(tag2, saved) {
			rt.Fatalf("%s: ComputeMAC changed after the caller mutated earlier inputs/outputs: %x vs %x", desc, tag2, saved)
		}
		finish(p, "mac/"+mk.name, evid.NewH().S(desc).B(msg).Sum(), map[string]any{"primitive": desc, "msg_len": len(msg)})
	})
}

func TestSignatureBuffers(t *testing.T) {
	templates := []*tinkpb.KeyTemplate{signature.ED25519KeyTemplate(), signature.ECDSAP256KeyTemplate(), signature.ECDSAP256RawKeyTemplate(), signature.ED25519KeyWithoutPrefixTemplate()}
	rapid.Check(t, func(rt *rapid.T) {
		detrand.Seed(rapid.Uint64().Draw(rt, "entropy"))
		var h *keyset.Handle
		var desc string
		kind := rapid.SampledFrom([]string{"legacy", "template", "template-legacy-prefix"}).Draw(rt, "kind")
		switch kind {
		case "legacy":
			var kb []byte
			var pt tinkpb.OutputPrefixType
			var id uint32
			h, kb, pt, id = legacyHandle(rt, legacykm.SignerURL, 32)
			desc = fmt.Sprintf("legacy signer/verifier adapters prefix=%v id=%#x seed=%x", pt, id, kb)
		default:
			kt := rapid.SampledFrom(templates).Draw(rt, "template")
			if kind == "template-legacy-prefix" {
				kt.OutputPrefixType = rapid.SampledFrom([]tinkpb.OutputPrefixType{tinkpb.OutputPrefixType_LEGACY, tinkpb.OutputPrefixType_CRUNCHY}).Draw(rt, "prefixtype")
			}
			h = tk.Must(keyset.NewHandle(kt))
			desc = fmt.Sprintf("signature %s prefix=%v", kt.TypeUrl, kt.OutputPrefixType)
		}
		s := tk.Must(signature.NewSigner(h))
		v := tk.Must(signature.NewVerifier(tk.Must(h.Public())))
		p := &probe{t: rt, desc: desc}
		msg := gen.Bytes(rt, "msg", 200)
		sig, err := s.Sign(p.in("message", msg))
		if err != nil {
			rt.Fatalf("%s: Sign: %v", desc, err)
		}
		p.verify("Sign")
		p.out("Sign", "signature", sig)
		saved := append([]byte{}, sig...)
		if err := v.Verify(p.in("signature", sig), p.in("message (verify)", msg)); err != nil {
			rt.Fatalf("%s: Verify: %v", desc, err)
		}
		p.verify("Verify")
		_ = v.Verify(p.in("short signature", saved[:len(saved)-1]), p.in("message (verify 2)", msg))
		p.verify("Verify(short)")
		p.scribble()
		flipAll(sig)
		if err := v.Verify(saved, msg); err != nil {
			rt.Fatalf("%s: saved signature no longer verifies after the caller mutated earlier buffers: %v", desc, err)
		}
		finish(p, "signature/"+kind, evid.NewH().S(desc).B(msg).Sum(), map[string]any{"primitive": desc, "msg_len": len(msg)})
	})
}

func TestDAEADBuffers(t *testing.T) {
	rapid.Check(t, func(rt *rapid.T) {
		detrand.Seed(rapid.Uint64().Draw(rt, "entropy"))
		var d tink.DeterministicAEAD
		var desc string
		kind := rapid.SampledFrom([]string{"legacy", "template", "subtle"}).Draw(rt, "kind")
		switch kind {
		case "legacy":
			h, kb, pt, id := legacyHandle(rt, legacykm.DaeadURL, 64)
			d, desc = tk.Must(daead.New(h)), fmt.Sprintf("legacy DAEAD adapter prefix=%v id=%#x key=%x", pt, id, kb)
		case "template":
			kt := daead.AESSIVKeyTemplate()
			kt.OutputPrefixType = rapid.SampledFrom(prefixTypes).Draw(rt, "prefixtype")
			d, desc = tk.Must(daead.New(tk.Must(keyset.NewHandle(kt)))), fmt.Sprintf("AES-SIV prefix=%v", kt.OutputPrefixType)
		case "subtle":
			k := gen.BytesN(rt, "key", 64)
			d, desc = tk.Must(daeadsubtle.NewAESSIV(k)), fmt.Sprintf("subtle AES-SIV key=%x", k)
		}
		p := &probe{t: rt, desc: desc}
		pt := gen.Bytes(rt, "pt", 200)
		ad := gen.BytesOrNil(rt, "ad", 80)
		ct, err := d.EncryptDeterministically(p.in("plaintext", pt), p.in("associated data", ad))
		if err != nil {
			rt.Fatalf("%s: Encrypt: %v", desc, err)
		}
		p.verify("EncryptDeterministically")
		p.out("EncryptDeterministically", "ciphertext", ct)
		saved := append([]byte{}, ct...)
		got, err := d.DecryptDeterministically(p.in("ciphertext", ct), p.in("associated data (decrypt)", ad))
		if err != nil || !bytes.Equal(got, pt) {
			rt.Fatalf("%s: Decrypt: %v", desc, err)
		}
		p.verify("DecryptDeterministically")
		p.out("DecryptDeterministically", "plaintext", got)
		p.scribble()
		flipAll(ct)
		flipAll(got)
		ct2, err := d.EncryptDeterministically(pt, ad)
		if err != nil || !bytes.Equal(ct2, saved) {
			rt.Fatalf("%s: deterministic ciphertext changed after the caller mutated earlier buffers", desc)
		}
		finish(p, "daead/"+kind, evid.NewH().S(desc).B(pt).B(ad).Sum(), map[string]any{"primitive": desc, "pt_len": len(pt)})
	})
}

func TestHybridBuffers(t *testing.T) {
	templates := []*tinkpb.KeyTemplate{hybrid.DHKEM_X25519_HKDF_SHA256_HKDF_SHA256_AES_128_GCM_Key_Template(), hybrid.DHKEM_P256_HKDF_SHA256_HKDF_SHA256_AES_256_GCM_Raw_Key_Template(), hybrid.ECIESHKDFAES128GCMKeyTemplate(), hybrid.ECIESHKDFAES128CTRHMACSHA256KeyTemplate()}
	rapid.Check(t, func(rt *rapid.T) {
		detrand.Seed(rapid.Uint64().Draw(rt, "entropy"))
		var h *keyset.Handle
		var desc string
		kind := rapid.SampledFrom([]string{"legacy", "template"}).Draw(rt, "kind")
		if kind == "legacy" {
			var kb []byte
			var pt tinkpb.OutputPrefixType
			var id uint32
			h, kb, pt, id = legacyHandle(rt, legacykm.HybridPrivURL, 32)
			desc = fmt.Sprintf("legacy hybrid adapters prefix=%v id=%#x key=%x", pt, id, kb)
		} else {
			kt := rapid.SampledFrom(templates).Draw(rt, "template")
			h = tk.Must(keyset.NewHandle(kt))
			desc = fmt.Sprintf("hybrid %s prefix=%v", kt.TypeUrl, kt.OutputPrefixType)
		}
		enc := tk.Must(hybrid.NewHybridEncrypt(tk.Must(h.Public())))
		dec := tk.Must(hybrid.NewHybridDecrypt(h))
		p := &probe{t: rt, desc: desc}
		pt := gen.Bytes(rt, "pt", 200)
		info := gen.BytesOrNil(rt, "info", 80)
		ct, err := enc.Encrypt(p.in("plaintext", pt), p.in("context info", info))
		if err != nil {
			rt.Fatalf("%s: Encrypt: %v", desc, err)
		}
		p.verify("Encrypt")
		p.out("Encrypt", "ciphertext", ct)
		saved := append([]byte{}, ct...)
		got, err := dec.Decrypt(p.in("ciphertext", ct), p.in("context info (decrypt)", info))
		if err != nil || !bytes.Equal(got, pt) {
			rt.Fatalf("%s: Decrypt: %v", desc, err)
		}
		p.verify("Decrypt")
		p.out("Decrypt", "plaintext", got)
		p.scribble()
		flipAll(ct)
		flipAll(got)
		got2, err := dec.Decrypt(saved, info)
		if err != nil || !bytes.Equal(got2, pt) {
			rt.Fatalf("%s: saved ciphertext no longer decrypts after the caller mutated earlier buffers: %v", desc, err)
		}
		finish(p, "hybrid/"+kind, evid.NewH().S(desc).B(pt).B(info).Sum(), map[string]any{"primitive": desc, "pt_len": len(pt)})
	})
}

func TestPRFAndStreamingBuffers(t *testing.T) {
	rapid.Check(t, func(rt *rapid.T) {
		detrand.Seed(rapid.Uint64().Draw(rt, "entropy"))
		kind := rapid.SampledFrom([]string{"prf", "streaming"}).Draw(rt, "kind")
		if kind == "prf" {
			kt := rapid.SampledFrom([]*tinkpb.KeyTemplate{prf.HMACSHA256PRFKeyTemplate(), prf.HKDFSHA256PRFKeyTemplate(), prf.AESCMACPRFKeyTemplate()}).Draw(rt, "template")
			set := tk.Must(prf.NewPRFSet(tk.Must(keyset.NewHandle(kt))))
			desc := "PRF " + kt.TypeUrl
			p := &probe{t: rt, desc: desc}
			in := gen.Bytes(rt, "input", 200)
			out, err := set.ComputePrimaryPRF(p.in("input", in), 16)
			if err != nil {
				rt.Fatalf("%s: %v", desc, err)
			}
			p.verify("ComputePrimaryPRF")
			p.out("ComputePrimaryPRF", "output", out)
			saved := append([]byte{}, out...)
			p.scribble()
			flipAll(out)
			out2, err := set.ComputePrimaryPRF(in, 16)
			if err != nil || !bytes.Equal(out2, saved) {
				rt.Fatalf("%s: PRF output changed after the caller mutated earlier buffers", desc)
			}
			finish(p, "prf", evid.NewH().S(desc).B(in).Sum(), map[string]any{"primitive": desc, "in_len": len(in)})
			return
		}
		kt := rapid.SampledFrom([]*tinkpb.KeyTemplate{streamingaead.AES128GCMHKDF4KBKeyTemplate(), streamingaead.AES128CTRHMACSHA256Segment4KBKeyTemplate()}).Draw(rt, "template")
		sa := tk.Must(streamingaead.New(tk.Must(keyset.NewHandle(kt))))
		desc := "streaming " + kt.TypeUrl
		p := &probe{t: rt, desc: desc}
		aad := gen.BytesOrNil(rt, "aad", 40)
		var buf bytes.Buffer
		w, err := sa.NewEncryptingWriter(&buf, p.in("aad", aad))
		if err != nil {
			rt.Fatalf("%s: %v", desc, err)
		}
		var all []byte
		nw := rapid.IntRange(1, 4).Draw(rt, "writes")
		for i := 0; i < nw; i++ {
			chunk := gen.Bytes(rt, "chunk", 6000)
			all = append(all, chunk...)
			if _, err := w.Write(p.in(fmt.Sprintf("write #%d", i), chunk)); err != nil {
				rt.Fatalf("%s: Write: %v", desc, err)
			}
			p.verify("Write")
			p.scribble() // the caller may reuse its buffer right after Write returns
		}
		if err := w.Close(); err != nil {
			rt.Fatalf("%s: Close: %v", desc, err)
		}
		p.verify("Close")
		r, err := sa.NewDecryptingReader(bytes.NewReader(buf.Bytes()), aad)
		if err != nil {
			rt.Fatalf("%s: %v", desc, err)
		}
		var got bytes.Buffer
		if _, err := got.ReadFrom(r); err != nil || !bytes.Equal(got.Bytes(), all) {
			rt.Fatalf("%s: stream written from reused caller buffers does not decrypt to what was written: %v", desc, err)
		}
		finish(p, "streaming", evid.NewH().S(desc).B(all).Sum(), map[string]any{"primitive": desc, "total": len(all), "writes": nw})
	})
}

// subtleCtor: constructors that take raw key bytes. After construction the caller overwrites its
// key buffer; later outputs must not change (no shared memory with the caller).
type subtleCtor struct {
	name   string
	keyLen int
	salt   bool
	build  func(key, salt []byte) (func(in []byte) ([]byte, error), error)
	// derive, when set, turns the drawn bytes into the bytes handed to the constructor (a public key
	// from a seed, a scalar in range); buildWith additionally receives the drawn bytes.
	derive    func(drawn []byte) []byte
	buildWith func(drawn, key, salt []byte) (func(in []byte) ([]byte, error), error)
}

func subtleCtors() []subtleCtor {
	macFn := func(m tink.MAC, err error) (func([]byte) ([]byte, error), error) {
		if err != nil {
			return nil, err
		}
		return m.ComputeMAC, nil
	}
	return []subtleCtor{
		{name: "mac/subtle.NewHMAC", keyLen: 32, salt: false, build: func(k, _ []byte) (func([]byte) ([]byte, error), error) {
			return macFn(macsubtle.NewHMAC("SHA256", k, 32))
		}},
		{name: "mac/subtle.NewAESCMAC", keyLen: 32, salt: false, build: func(k, _ []byte) (func([]byte) ([]byte, error), error) { return macFn(macsubtle.NewAESCMAC(k, 16)) }},
		{name: "daead/subtle.NewAESSIV", keyLen: 64, salt: false, build: func(k, _ []byte) (func([]byte) ([]byte, error), error) {
			d, err := daeadsubtle.NewAESSIV(k)
			if err != nil {
				return nil, err
			}
			return func(in []byte) ([]byte, error) { return d.EncryptDeterministically(in, nil) }, nil
		}},
		{name: "prf/subtle.NewHMACPRF", keyLen: 32, salt: false, build: func(k, _ []byte) (func([]byte) ([]byte, error), error) {
			p, err := prfsubtle.NewHMACPRF("SHA256", k)
			if err != nil {
				return nil, err
			}
			return func(in []byte) ([]byte, error) { return p.ComputePRF(in, 32) }, nil
		}},
		{name: "prf/subtle.NewHKDFPRF", keyLen: 32, salt: true, build: func(k, s []byte) (func([]byte) ([]byte, error), error) {
			p, err := prfsubtle.NewHKDFPRF("SHA256", k, s)
			if err != nil {
				return nil, err
			}
			return func(in []byte) ([]byte, error) { return p.ComputePRF(in, 48) }, nil
		}},
		{name: "prf/subtle.NewAESCMACPRF", keyLen: 32, salt: false, build: func(k, _ []byte) (func([]byte) ([]byte, error), error) {
			p, err := prfsubtle.NewAESCMACPRF(k)
			if err != nil {
				return nil, err
			}
			return func(in []byte) ([]byte, error) { return p.ComputePRF(in, 16) }, nil
		}},
		{name: "signature/subtle.NewED25519Signer", keyLen: 32, salt: false, build: func(k, _ []byte) (func([]byte) ([]byte, error), error) {
			s, err := sigsubtle.NewED25519Signer(k)
			if err != nil {
				return nil, err
			}
			return s.Sign, nil
		}},
	}
}

func sitesig(name string) string { return "key-aliasing:" + name }

func TestSubtleConstructorsCopyKeys(t *testing.T) {
	ctors := append(subtleCtors(), moreSubtleCtors()...)
	for _, sub := range aeadcase.Types {
		if sub == "XAESGCM" {
			continue
		}
		sub := sub
		ctors = append(ctors, subtleCtor{name: "aead/subtle(" + sub + ")"})
		_ = sub
	}
	rapid.Check(t, func(rt *rapid.T) {
		detrand.Seed(rapid.Uint64().Draw(rt, "entropy"))
		c := rapid.SampledFrom(ctors).Draw(rt, "ctor")
		if c.build == nil && c.buildWith == nil {
			rt.Skip("aead subtle constructors are covered by TestAEADKeysCopied")
		}
		p := &probe{t: rt, desc: c.name}
		key := gen.BytesN(rt, "key", c.keyLen)
		var salt []byte
		if c.salt {
			salt = gen.BytesN(rt, "salt", rapid.IntRange(1, 40).Draw(rt, "saltlen"))
		}
		drawn := key
		if c.derive != nil {
			key = c.derive(drawn)
		}
		keyIn, saltIn := p.in("key", key), p.in("salt", salt)
		var f func([]byte) ([]byte, error)
		var err error
		if c.buildWith != nil {
			f, err = c.buildWith(drawn, keyIn, saltIn)
		} else {
			f, err = c.build(keyIn, saltIn)
		}
		if err != nil {
			rt.Fatalf("%s: %v", c.name, err)
		}
		p.verify(c.name)
		in := gen.Bytes(rt, "input", 100)
		before, err := f(in)
		if err != nil {
			rt.Fatalf("%s: %v", c.name, err)
		}
		p.scribble() // the caller wipes / reuses its key buffer
		after, err := f(in)
		if err != nil {
			rt.Fatalf("%s: %v", c.name, err)
		}
		deterministic := c.name != "never"
		if deterministic && !bytes.Equal(before, after) {
			if kf.Listed(propID, sitesig(c.name)) {
				kf.Report(propID, sitesig(c.name))
				evid.Add("excluded_known", 1)
			} else {
				rt.Fatalf("%s keeps the caller's key (or salt) slice: after the caller overwrote its buffers the primitive's output for input %x changed from %q to %q", c.name, in, before, after)
			}
		}
		finish(p, "subtle-ctor/"+c.name, evid.NewH().S(c.name).B(key).B(salt).B(in).Sum(), map[string]any{"constructor": c.name, "key": gen.Hex(key)})
	})
}

// TestAEADKeysCopied: the aead/subtle constructors and key objects do not alias the caller's key.
func TestAEADKeysCopied(t *testing.T) {
	rapid.Check(t, func(rt *rapid.T) {
		detrand.Seed(rapid.Uint64().Draw(rt, "entropy"))
		c := aeadcase.Draw(rt)
		// rebuild the same configuration from arena-backed key bytes, then scribble
		p := &probe{t: rt, desc: c.String()}
		d := *c
		d.Key = p.in("key", c.Key)
		d.MacKey = p.in("mac key", c.MacKey)
		if err := d.Rebuild(); err != nil {
			rt.Fatalf("%v: %v", c, err)
		}
		p.verify("constructor")
		pt := gen.Bytes(rt, "pt", 64)
		p.scribble()
		ct, err := d.P.Encrypt(pt, nil)
		if err != nil {
			rt.Fatalf("%v: %v", c, err)
		}
		// c holds the pristine key: it must still decrypt what d (whose caller buffer was overwritten) produced
		got, err := c.P.Decrypt(ct, nil)
		if err != nil || !bytes.Equal(got, pt) {
			sig := sitesig("aead/" + c.Type + "/" + c.Route)
			if kf.Listed(propID, sig) {
				kf.Report(propID, sig)
				evid.Add("excluded_known", 1)
			} else {
				rt.Fatalf("%v: primitive built from a key buffer that the caller later overwrote no longer interoperates with a primitive built from a pristine copy (route %s): %v", c, c.Route, err)
			}
		}
		finish(p, "aead-key/"+c.Type+"/"+c.Route, evid.NewH().S(c.String()).B(pt).Sum(), map[string]any{"case": c.String()})
	})
}
