package c19

import (
	"bytes"
	"testing"

	"pgregory.net/rapid"

	kwpsubtle "github.com/tink-crypto/tink-go/v2/kwp/subtle"
	"github.com/tink-crypto/tink-go/v2/verifharness/internal/detrand"
	"github.com/tink-crypto/tink-go/v2/verifharness/internal/evid"
	"github.com/tink-crypto/tink-go/v2/verifharness/internal/gen"
)

// TestKWPBuffers: AES-KWP Wrap and Unwrap under the buffer discipline (the per-class units cover the
// keyset primitives; KWP exists only as a subtle primitive). Payload and wrapped blob live in arenas
// with spare capacity: neither call may write into them - Unwrap in particular must not run the
// inverse permutation in place on the caller's blob (seeded change C08g) - the failing Unwrap of a
// modified blob included; results share no memory with the arguments or with each other; after the
// caller has overwritten its buffers and the results it received, the same object still unwraps the
// saved blob to the payload. (c08 decides the values; it only counts a modified input.)
func TestKWPBuffers(t *testing.T) {
	rapid.Check(t, func(rt *rapid.T) {
		detrand.Seed(rapid.Uint64().Draw(rt, "entropy"))
		kek := gen.BytesN(rt, "kek", gen.Pick(rt, "kek_len", []int{16, 32}))
		w, err := kwpsubtle.NewKWP(bytes.Clone(kek))
		if err != nil {
			rt.Fatalf("NewKWP(%x): %v", kek, err)
		}
		n := gen.Pick(rt, "payload_len_kind", []int{16, 17, 23, 24, 31, 32, 33, 64, 100, 255, 256, 1000})
		payload := gen.BytesN(rt, "payload", n)
		desc := "AES-KWP kek=" + gen.Hex(kek) + " payload=" + gen.Hex(payload)
		p := &probe{t: rt, desc: desc}
		blob, err := w.Wrap(p.in("payload", payload))
		if err != nil {
			rt.Fatalf("%s: Wrap: %v", desc, err)
		}
		p.verify("Wrap")
		p.out("Wrap", "wrapped key", blob)
		saved := bytes.Clone(blob)
		got, err := w.Unwrap(p.in("wrapped key", blob))
		if err != nil || !bytes.Equal(got, payload) {
			rt.Fatalf("%s: Unwrap(Wrap(payload)): %x, %v", desc, got, err)
		}
		p.verify("Unwrap")
		p.out("Unwrap", "payload", got)
		// a second Unwrap through the same arena (still holding the blob, as verify has shown)
		arenaBlob := p.arenas[len(p.arenas)-1].buf[guardLen : guardLen+len(blob)]
		got2, err := w.Unwrap(arenaBlob)
		if err != nil || !bytes.Equal(got2, payload) {
			rt.Fatalf("%s: the second Unwrap of the caller's blob: %x, %v", desc, got2, err)
		}
		p.verify("Unwrap (second)")
		p.out("Unwrap", "payload (second)", got2)
		// failing Unwrap: one byte changed, and a truncated blob
		bad := bytes.Clone(saved)
		bad[rapid.IntRange(0, len(bad)-1).Draw(rt, "bad_pos")] ^= 0x40
		_, _ = w.Unwrap(p.in("modified wrapped key", bad))
		p.verify("Unwrap(modified)")
		_, _ = w.Unwrap(p.in("truncated wrapped key", saved[:len(saved)-8]))
		p.verify("Unwrap(truncated)")
		// the caller reuses everything it passed in or received
		p.scribble()
		flipAll(blob)
		flipAll(got)
		flipAll(got2)
		got3, err := w.Unwrap(bytes.Clone(saved))
		if err != nil || !bytes.Equal(got3, payload) {
			rt.Fatalf("%s: after the caller overwrote its buffers and the results it had received, Unwrap of the saved blob gives %x, %v", desc, got3, err)
		}
		blob3, err := w.Wrap(bytes.Clone(payload))
		if err != nil || !bytes.Equal(blob3, saved) {
			rt.Fatalf("%s: after the caller overwrote its buffers and the results it had received, Wrap gives %x (%v), before %x", desc, blob3, err, saved)
		}
		finish(p, "kwp/payload="+gen.LenClass(n), evid.NewH().B(kek).B(payload).Sum(), map[string]any{"kek_len": len(kek), "payload_len": n})
	})
}
