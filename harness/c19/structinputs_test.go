package c19

import (
	"bytes"
	"crypto/ecdsa"
	"crypto/elliptic"
	"math/big"
	"testing"

	"pgregory.net/rapid"

	hsubtle "github.com/tink-crypto/tink-go/v2/hybrid/subtle"
	"github.com/tink-crypto/tink-go/v2/insecurecleartextkeyset"
	"github.com/tink-crypto/tink-go/v2/internal/internalapi"
	"github.com/tink-crypto/tink-go/v2/keyset"
	"github.com/tink-crypto/tink-go/v2/mac"
	sigsubtle "github.com/tink-crypto/tink-go/v2/signature/subtle"
	"github.com/tink-crypto/tink-go/v2/verifharness/internal/detrand"
	"github.com/tink-crypto/tink-go/v2/verifharness/internal/evid"
	"github.com/tink-crypto/tink-go/v2/verifharness/internal/gen"
	"github.com/tink-crypto/tink-go/v2/verifharness/internal/tk"
)

// TestStructInputsNotRetained: "mutating an input after the call ... never changes a key object, a
// handle, or later results of a primitive built before ... the mutation" for the inputs that are not
// byte slices themselves but hold the bytes: the *ecdsa key structs of the signature/subtle
// From...Key constructors, the *ECPublicKey / *ECPrivateKey structs of the hybrid/subtle ECIES
// constructors (their coordinates are *big.Int the caller still owns), and the annotations map of
// keyset.WithAnnotations. After construction the caller overwrites what it passed; signatures made
// afterwards must verify under an untouched copy of the key, verdicts and decryptions must stay what
// they were, and the handle's annotations must stay what was passed.
// (Found by the systematic read-only sweep of every exported function taking such inputs: F29-F31.)
func TestStructInputsNotRetained(t *testing.T) {
	rapid.Check(t, func(rt *rapid.T) {
		detrand.Seed(rapid.Uint64().Draw(rt, "entropy"))
		curve := elliptic.P256()
		scalar := func(label string) *big.Int {
			d := new(big.Int).SetBytes(gen.BytesN(rt, label, 40))
			d.Mod(d, new(big.Int).Sub(curve.Params().N, big.NewInt(1)))
			return d.Add(d, big.NewInt(1))
		}
		d, other := scalar("d"), scalar("other")
		x, y := curve.ScalarBaseMult(d.Bytes())
		ox, oy := curve.ScalarBaseMult(other.Bytes())
		msg := gen.Bytes(rt, "msg", 60)
		kind := gen.Pick(rt, "kind", []string{"ecdsa-signer", "ecdsa-verifier", "ecies-encrypt", "ecies-decrypt", "annotations"})
		switch kind {
		case "ecdsa-signer", "ecdsa-verifier":
			enc := gen.Pick(rt, "encoding", []string{"DER", "IEEE_P1363"})
			mine := &ecdsa.PrivateKey{PublicKey: ecdsa.PublicKey{Curve: curve, X: new(big.Int).Set(x), Y: new(big.Int).Set(y)}, D: new(big.Int).Set(d)}
			refPub := &ecdsa.PublicKey{Curve: curve, X: new(big.Int).Set(x), Y: new(big.Int).Set(y)}
			refPriv := &ecdsa.PrivateKey{PublicKey: *refPub, D: new(big.Int).Set(d)}
			vRef := tk.Must(sigsubtle.NewECDSAVerifierFromPublicKey("SHA256", enc, refPub))
			sRef := tk.Must(sigsubtle.NewECDSASignerFromPrivateKey("SHA256", enc, refPriv))
			if kind == "ecdsa-signer" {
				s := tk.Must(sigsubtle.NewECDSASignerFromPrivateKey("SHA256", enc, mine))
				mine.D.Set(other)
				mine.X.Set(ox)
				mine.Y.Set(oy)
				sig, err := s.Sign(msg)
				if err != nil || vRef.Verify(sig, msg) != nil {
					rt.Fatalf("signature/subtle.NewECDSASignerFromPrivateKey keeps the caller's *ecdsa.PrivateKey: after the caller overwrote D, X, Y of the struct it had passed, the signer's signature does not verify under the original public key (Sign error %v)", err)
				}
			} else {
				minePub := &mine.PublicKey
				v := tk.Must(sigsubtle.NewECDSAVerifierFromPublicKey("SHA256", enc, minePub))
				sig := tk.Must(sRef.Sign(msg))
				if err := v.Verify(sig, msg); err != nil {
					rt.Fatalf("harness: %v", err)
				}
				minePub.X.Set(ox)
				minePub.Y.Set(oy)
				if err := v.Verify(sig, msg); err != nil {
					rt.Fatalf("signature/subtle.NewECDSAVerifierFromPublicKey keeps the caller's *ecdsa.PublicKey: a signature accepted before is rejected after the caller overwrote X, Y of the struct it had passed: %v", err)
				}
			}
		case "ecies-encrypt", "ecies-decrypt":
			db := d.FillBytes(make([]byte, 32))
			mine, ref := hsubtle.GetECPrivateKey(curve, db), hsubtle.GetECPrivateKey(curve, bytes.Clone(db))
			format := gen.Pick(rt, "format", []string{"COMPRESSED", "UNCOMPRESSED"})
			encRef := tk.Must(hsubtle.NewECIESAEADHKDFHybridEncrypt(&ref.PublicKey, nil, "SHA256", format, gcmDEM{}))
			decRef := tk.Must(hsubtle.NewECIESAEADHKDFHybridDecrypt(ref, nil, "SHA256", format, gcmDEM{}))
			if kind == "ecies-encrypt" {
				e := tk.Must(hsubtle.NewECIESAEADHKDFHybridEncrypt(&mine.PublicKey, nil, "SHA256", format, gcmDEM{}))
				mine.PublicKey.Point.X.Set(ox)
				mine.PublicKey.Point.Y.Set(oy)
				ct, err := e.Encrypt(msg, nil)
				if err != nil {
					rt.Fatalf("Encrypt: %v", err)
				}
				if got, err := decRef.Decrypt(ct, nil); err != nil || !bytes.Equal(got, msg) {
					rt.Fatalf("hybrid/subtle.NewECIESAEADHKDFHybridEncrypt shares the coordinates of the caller's *ECPublicKey: after the caller overwrote them, what the encrypter produces is not decrypted by the original private key: %v", err)
				}
			} else {
				dec := tk.Must(hsubtle.NewECIESAEADHKDFHybridDecrypt(mine, nil, "SHA256", format, gcmDEM{}))
				mine.D.Set(other)
				ct := tk.Must(encRef.Encrypt(msg, nil))
				if got, err := dec.Decrypt(ct, nil); err != nil || !bytes.Equal(got, msg) {
					rt.Fatalf("hybrid/subtle.NewECIESAEADHKDFHybridDecrypt keeps the caller's *ECPrivateKey: after the caller overwrote D of the struct it had passed, the decrypter fails: %v", err)
				}
			}
		case "annotations":
			var mem keyset.MemReaderWriter
			if err := insecurecleartextkeyset.Write(tk.Must(keyset.NewHandle(mac.HMACSHA256Tag128KeyTemplate())), &mem); err != nil {
				rt.Fatalf("harness: %v", err)
			}
			m := map[string]string{"owner": "alice", "zone": "a"}
			h, err := insecurecleartextkeyset.Read(&mem, keyset.WithAnnotations(m))
			if err != nil {
				rt.Fatalf("Read(WithAnnotations): %v", err)
			}
			m["owner"] = "mallory"
			delete(m, "zone")
			got := h.Annotations(internalapi.Token{})
			if got["owner"] != "alice" || got["zone"] != "a" || len(got) != 2 {
				rt.Fatalf("keyset.WithAnnotations keeps the caller's map: after the caller changed it the handle's annotations are %v, passed were map[owner:alice zone:a]", got)
			}
		}
		evid.Case("struct-inputs/"+kind, true, evid.NewH().S(kind).B(d.Bytes()).B(msg).Sum(), nil)
	})
}
