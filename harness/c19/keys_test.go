package c19

import (
	"bytes"
	"fmt"
	"math/big"
	"reflect"
	"sort"
	"testing"

	"google.golang.org/protobuf/proto"
	"pgregory.net/rapid"

	aeadsubtle "github.com/tink-crypto/tink-go/v2/aead/subtle"
	"github.com/tink-crypto/tink-go/v2/hybrid/ecies"
	"github.com/tink-crypto/tink-go/v2/hybrid/hpke"
	"github.com/tink-crypto/tink-go/v2/insecurecleartextkeyset"
	"github.com/tink-crypto/tink-go/v2/insecuresecretdataaccess"
	"github.com/tink-crypto/tink-go/v2/internal/protoserialization"
	"github.com/tink-crypto/tink-go/v2/jwt/jwtecdsa"
	"github.com/tink-crypto/tink-go/v2/jwt/jwtmldsa"
	"github.com/tink-crypto/tink-go/v2/jwt/jwtrsassapkcs1"
	"github.com/tink-crypto/tink-go/v2/jwt/jwtrsassapss"
	"github.com/tink-crypto/tink-go/v2/key"
	"github.com/tink-crypto/tink-go/v2/keyset"
	"github.com/tink-crypto/tink-go/v2/prf/hkdfprf"
	tinkpb "github.com/tink-crypto/tink-go/v2/proto/tink_go_proto"
	"github.com/tink-crypto/tink-go/v2/secretdata"
	"github.com/tink-crypto/tink-go/v2/signature/ecdsa"
	"github.com/tink-crypto/tink-go/v2/signature/ed25519"
	"github.com/tink-crypto/tink-go/v2/signature/mldsa"
	"github.com/tink-crypto/tink-go/v2/signature/rsassapkcs1"
	"github.com/tink-crypto/tink-go/v2/signature/rsassapss"
	"github.com/tink-crypto/tink-go/v2/signature/slhdsa"
	"github.com/tink-crypto/tink-go/v2/verifharness/internal/detrand"
	"github.com/tink-crypto/tink-go/v2/verifharness/internal/evid"
	"github.com/tink-crypto/tink-go/v2/verifharness/internal/gen"
	"github.com/tink-crypto/tink-go/v2/verifharness/internal/keys"
	"github.com/tink-crypto/tink-go/v2/verifharness/internal/kf"
	"github.com/tink-crypto/tink-go/v2/verifharness/internal/legacykm"
	"github.com/tink-crypto/tink-go/v2/verifharness/internal/tk"
)

var (
	bytesType  = reflect.TypeOf([]byte(nil))
	secretType = reflect.TypeOf(secretdata.Bytes{})
	bigIntType = reflect.TypeOf((*big.Int)(nil))
)

// accessor is one zero-argument exported method reachable from a key object that hands out bytes.
type accessor struct {
	path string
	call func() []byte // returns the RAW returned slice (not a copy)
}

// collect walks exported zero-argument methods of v (depth-limited) and gathers every method
// returning []byte or secretdata.Bytes; methods returning other objects with methods are followed.
func collect(path string, v reflect.Value, depth int, seen map[reflect.Type]bool, out *[]accessor) {
	if !v.IsValid() || depth > 3 {
		return
	}
	if (v.Kind() == reflect.Ptr || v.Kind() == reflect.Interface) && v.IsNil() {
		return
	}
	if v.Kind() == reflect.Interface {
		// Parameters() returns the key.Parameters interface: walk the methods of the object behind
		// it (Salt(), nested parameters ...), not the two methods of the interface
		v = v.Elem()
	}
	t := v.Type()
	if seen[t] {
		return
	}
	seen[t] = true
	defer delete(seen, t)
	for i := 0; i < t.NumMethod(); i++ {
		m := t.Method(i)
		mt := m.Type
		if mt.NumIn() != 1 || mt.NumOut() < 1 || mt.NumOut() > 2 {
			if mt.NumOut() > 0 && (mt.Out(0) == bytesType || mt.Out(0) == secretType) {
				evid.Add("accessor_walk/not_called/takes_arguments_or_three_results/"+t.String()+"."+m.Name, 1)
			}
			continue
		}
		switch m.Name {
		case "String", "GoString", "Error":
			continue
		}
		rt := mt.Out(0)
		mv := v.Method(i)
		p := path + "." + m.Name + "()"
		switch {
		case rt == bytesType && mt.NumOut() == 1:
			*out = append(*out, accessor{p, func() []byte { return mv.Call(nil)[0].Bytes() }})
		case rt == secretType && mt.NumOut() == 1:
			*out = append(*out, accessor{p + ".Data()", func() []byte {
				sb := mv.Call(nil)[0].Interface().(secretdata.Bytes)
				return sb.Data(insecuresecretdataaccess.Token{})
			}})
		case (rt == bytesType || rt == secretType) && mt.NumOut() == 2:
			// ([]byte, error) / (secretdata.Bytes, error): not walked (none on the present key types)
			evid.Add("accessor_walk/not_called/bytes_with_second_result/"+t.String()+"."+m.Name, 1)
		case rt.Kind() == reflect.Ptr || rt.Kind() == reflect.Interface || rt.Kind() == reflect.Struct:
			if rt == bigIntType || rt.PkgPath() == "time" {
				evid.Add("accessor_walk/not_followed/bigint_or_time", 1)
				continue
			}
			if rt.NumMethod() == 0 {
				evid.Add("accessor_walk/not_followed/result_without_methods", 1)
				continue
			}
			func() {
				defer func() {
					// an accessor that panics on this key shape is not this unit's concern: counted
					if r := recover(); r != nil {
						evid.Add("accessor_walk/panic_recovered/"+t.String()+"."+m.Name, 1)
					}
				}()
				res := mv.Call(nil)
				if len(res) == 2 && res[1].Kind() == reflect.Interface && !res[1].IsNil() {
					evid.Add("accessor_walk/not_followed/error_result", 1)
					return // (value, error) with error set
				}
				collect(p, res[0], depth+1, seen, out)
			}()
		}
	}
}

func accessorsOf(info *keys.Info) []accessor {
	var out []accessor
	seen := map[reflect.Type]bool{}
	collect("Key", reflect.ValueOf(info.Key), 0, seen, &out)
	if info.Public != nil {
		collect("Public", reflect.ValueOf(info.Public), 0, seen, &out)
	}
	sort.Slice(out, func(i, j int) bool { return out[i].path < out[j].path })
	return out
}

func serialized(k key.Key) []byte {
	ks, err := protoserialization.SerializeKey(k)
	if err != nil {
		return nil
	}
	b, err := proto.MarshalOptions{Deterministic: true}.Marshal(ks.KeyData())
	if err != nil {
		return nil
	}
	return b
}

func drawAnyKey(rt *rapid.T) *keys.Info {
	c := gen.Pick(rt, "class", keys.Classes())
	return keys.DrawType(rt, "key", gen.Pick(rt, "key_type", weightedTypes(c, false)))
}

func knownOrFail(rt *rapid.T, sig, msg string) {
	if kf.Listed(propID, sig) {
		kf.Report(propID, sig)
		evid.Add("excluded_known", 1)
		return
	}
	rt.Fatalf("%s", msg)
}

// TestKeyAccessorsReturnCopies: flipping every byte of a value handed out by ANY accessor of a key,
// public key or parameters object must not change what the accessor returns next, nor the key's
// serialization or Equal-ity.
func TestKeyAccessorsReturnCopies(t *testing.T) {
	rapid.Check(t, func(rt *rapid.T) {
		detrand.Seed(rapid.Uint64().Draw(rt, "entropy"))
		info := drawAnyKey(rt)
		// a twin built a second time from the material the key was generated from (compared at the end:
		// comparing the key with itself says nothing)
		twin, hasTwin := info.WithVariantID(info.Variant, info.ID)
		if !hasTwin {
			evid.Add("accessors/no_twin/"+info.Type, 1)
		} else if !info.Key.Equal(twin.Key) || !twin.Key.Equal(info.Key) {
			rt.Fatalf("harness: %s: a key built twice from the same material is not Equal to its twin", info.Desc)
		}
		accs := accessorsOf(info)
		if len(accs) == 0 {
			evid.Case("accessors/none/"+info.Type, false, 0, nil)
			return
		}
		before := serialized(info.Key)
		var beforePub []byte
		if info.Public != nil {
			beforePub = serialized(info.Public)
		}
		n := 0
		for _, a := range accs {
			v1 := a.call()
			if len(v1) == 0 {
				continue
			}
			n++
			want := append([]byte{}, v1...)
			flipAll(v1)
			v2 := a.call()
			if !bytes.Equal(v2, want) {
				knownOrFail(rt, "accessor-aliasing:"+info.Type+":"+a.path,
					fmt.Sprintf("%s: %s hands out internal memory: after the caller flipped the returned bytes, the accessor returns %x instead of %x", info.Desc, a.path, v2, want))
				flipAll(v1) // restore so the remaining checks are meaningful
			}
		}
		if after := serialized(info.Key); !bytes.Equal(before, after) {
			rt.Fatalf("%s: serialization of the key changed after mutating accessor results", info.Desc)
		}
		if info.Public != nil {
			if after := serialized(info.Public); !bytes.Equal(beforePub, after) {
				rt.Fatalf("%s: serialization of the public key changed after mutating accessor results", info.Desc)
			}
		}
		if hasTwin {
			if !info.Key.Equal(twin.Key) || !twin.Key.Equal(info.Key) {
				rt.Fatalf("%s: after the caller flipped the bytes handed out by the key's accessors the key is no longer Equal to a twin built from the same material", info.Desc)
			}
			if info.Public != nil && twin.Public != nil && (!info.Public.Equal(twin.Public) || !twin.Public.Equal(info.Public)) {
				rt.Fatalf("%s: after the caller flipped the bytes handed out by the accessors the public key is no longer Equal to a twin built from the same material", info.Desc)
			}
		}
		evid.Add("accessor_calls", int64(n))
		evid.Case("accessors/"+info.Type, true, evid.NewH().S(info.Desc).Sum(), func() any {
			paths := []string{}
			for _, a := range accs {
				paths = append(paths, a.path)
			}
			return map[string]any{"key": info.Desc, "accessors": paths}
		})
	})
}

// TestParsersAndSerializersDoNotAlias: the proto path. The KeyData handed to the parser lives in
// an arena that is overwritten afterwards; the KeyData handed out by the serializer is flipped.
func TestParsersAndSerializersDoNotAlias(t *testing.T) {
	rapid.Check(t, func(rt *rapid.T) {
		detrand.Seed(rapid.Uint64().Draw(rt, "entropy"))
		info := drawAnyKey(rt)
		k := info.Key
		if info.Public != nil && rapid.Bool().Draw(rt, "usepublic") {
			k = info.Public
		}
		ks, err := protoserialization.SerializeKey(k)
		if err != nil {
			evid.Case("proto/not-serializable/"+info.Type, false, 0, nil)
			return
		}
		pristine := serialized(k)
		p := &probe{t: rt, desc: info.Desc}
		kd := ks.KeyData()
		idReq, _ := ks.IDRequirement()
		arenaKD := &tinkpb.KeyData{TypeUrl: kd.GetTypeUrl(), KeyMaterialType: kd.GetKeyMaterialType(), Value: p.in("KeyData.value", kd.GetValue())}
		ks2, err := protoserialization.NewKeySerialization(arenaKD, ks.OutputPrefixType(), idReq)
		if err != nil {
			rt.Fatalf("%s: NewKeySerialization: %v", info.Desc, err)
		}
		k2, err := protoserialization.ParseKey(ks2)
		if err != nil {
			rt.Fatalf("%s: ParseKey of its own serialization: %v", info.Desc, err)
		}
		p.verify("ParseKey")
		// the reference is a key parsed from a pristine copy that nobody touches (not the generated key:
		// whether parsing gives back an Equal key is C12's, and known not to hold for every type)
		refKD := &tinkpb.KeyData{TypeUrl: kd.GetTypeUrl(), KeyMaterialType: kd.GetKeyMaterialType(), Value: bytes.Clone(kd.GetValue())}
		kRef, err := protoserialization.ParseKey(tk.Must(protoserialization.NewKeySerialization(refKD, ks.OutputPrefixType(), idReq)))
		if err != nil {
			rt.Fatalf("%s: ParseKey of its own serialization: %v", info.Desc, err)
		}
		if !k2.Equal(kRef) {
			rt.Fatalf("harness: %s: two keys parsed from copies of one serialization are not Equal", info.Desc)
		}
		if !k2.Equal(k) {
			evid.Add("observed_not_asserted/C12_parsed_key_not_equal_to_original/"+info.Type, 1)
		}
		p.scribble() // the caller reuses the buffer the proto was decoded from
		if !k2.Equal(kRef) || !bytes.Equal(serialized(k2), pristine) {
			knownOrFail(rt, "parser-aliasing:"+info.Type,
				fmt.Sprintf("%s: key parsed from a KeyData whose value buffer the caller later overwrote is no longer Equal to the original (parser kept a sub-slice of its input)", info.Desc))
		}
		// serializer output: flip it, the key must not change
		ks3, err := protoserialization.SerializeKey(k)
		if err != nil {
			rt.Fatalf("%s: %v", info.Desc, err)
		}
		flipAll(ks3.KeyData().GetValue())
		if !bytes.Equal(serialized(k), pristine) {
			knownOrFail(rt, "serializer-aliasing:"+info.Type,
				fmt.Sprintf("%s: flipping the bytes of the KeyData returned by SerializeKey changed the key (serializer handed out internal memory)", info.Desc))
		}
		finish(p, "proto/"+info.Type, evid.NewH().S(info.Desc).B(pristine).Sum(), map[string]any{"key": info.Desc})
	})
}

// rebuildPublic re-creates a public key from arena-backed bytes through the type's own constructor.
func rebuildPublic(p *probe, pub key.Key) (key.Key, string, error) {
	id, _ := pub.IDRequirement()
	switch k := pub.(type) {
	case *ecdsa.PublicKey:
		r, err := ecdsa.NewPublicKey(p.in("public point", k.PublicPoint()), id, k.Parameters().(*ecdsa.Parameters))
		return r, "ecdsa.NewPublicKey", err
	case *ed25519.PublicKey:
		r, err := ed25519.NewPublicKey(p.in("key bytes", k.KeyBytes()), id, *k.Parameters().(*ed25519.Parameters))
		return r, "ed25519.NewPublicKey", err
	case *rsassapkcs1.PublicKey:
		r, err := rsassapkcs1.NewPublicKey(p.in("modulus", k.Modulus()), id, k.Parameters().(*rsassapkcs1.Parameters))
		return r, "rsassapkcs1.NewPublicKey", err
	case *rsassapss.PublicKey:
		r, err := rsassapss.NewPublicKey(p.in("modulus", k.Modulus()), id, k.Parameters().(*rsassapss.Parameters))
		return r, "rsassapss.NewPublicKey", err
	case *mldsa.PublicKey:
		r, err := mldsa.NewPublicKey(p.in("key bytes", k.KeyBytes()), id, k.Parameters().(*mldsa.Parameters))
		return r, "mldsa.NewPublicKey", err
	case *slhdsa.PublicKey:
		r, err := slhdsa.NewPublicKey(p.in("key bytes", k.KeyBytes()), id, k.Parameters().(*slhdsa.Parameters))
		return r, "slhdsa.NewPublicKey", err
	case *hpke.PublicKey:
		r, err := hpke.NewPublicKey(p.in("public key bytes", bytes.Clone(k.PublicKeyBytes())), id, k.Parameters().(*hpke.Parameters))
		return r, "hpke.NewPublicKey", err
	case *ecies.PublicKey:
		r, err := ecies.NewPublicKey(p.in("public key bytes", bytes.Clone(k.PublicKeyBytes())), id, k.Parameters().(*ecies.Parameters))
		return r, "ecies.NewPublicKey", err
	case *jwtecdsa.PublicKey:
		kid, has := k.KID()
		custom := has && k.Parameters().(*jwtecdsa.Parameters).KIDStrategy() == jwtecdsa.CustomKID
		if !custom {
			kid = ""
		}
		r, err := jwtecdsa.NewPublicKey(jwtecdsa.PublicKeyOpts{PublicPoint: p.in("public point", bytes.Clone(k.PublicPoint())), IDRequirement: id, CustomKID: kid, HasCustomKID: custom, Parameters: k.Parameters().(*jwtecdsa.Parameters)})
		return r, "jwtecdsa.NewPublicKey", err
	case *jwtrsassapkcs1.PublicKey:
		kid, has := k.KID()
		custom := has && k.Parameters().(*jwtrsassapkcs1.Parameters).KIDStrategy() == jwtrsassapkcs1.CustomKID
		if !custom {
			kid = ""
		}
		r, err := jwtrsassapkcs1.NewPublicKey(jwtrsassapkcs1.PublicKeyOpts{Modulus: p.in("modulus", k.Modulus()), IDRequirement: id, CustomKID: kid, HasCustomKID: custom, Parameters: k.Parameters().(*jwtrsassapkcs1.Parameters)})
		return r, "jwtrsassapkcs1.NewPublicKey", err
	case *jwtrsassapss.PublicKey:
		kid, has := k.KID()
		custom := has && k.Parameters().(*jwtrsassapss.Parameters).KIDStrategy() == jwtrsassapss.CustomKID
		if !custom {
			kid = ""
		}
		r, err := jwtrsassapss.NewPublicKey(jwtrsassapss.PublicKeyOpts{Modulus: p.in("modulus", k.Modulus()), IDRequirement: id, CustomKID: kid, HasCustomKID: custom, Parameters: k.Parameters().(*jwtrsassapss.Parameters)})
		return r, "jwtrsassapss.NewPublicKey", err
	case *jwtmldsa.PublicKey:
		kid, has := k.KID()
		custom := has && k.Parameters().(*jwtmldsa.Parameters).KIDStrategy() == jwtmldsa.CustomKID
		if !custom {
			kid = ""
		}
		r, err := jwtmldsa.NewPublicKey(jwtmldsa.PublicKeyOpts{KeyBytes: p.in("key bytes", k.KeyBytes()), IDRequirement: id, CustomKID: kid, HasCustomKID: custom, Parameters: k.Parameters().(*jwtmldsa.Parameters)})
		return r, "jwtmldsa.NewPublicKey", err
	}
	return nil, "", nil
}

// TestConstructorsCopyInputs: public-key constructors, secretdata and parameter constructors taking
// byte slices must not keep the caller's memory.
func TestConstructorsCopyInputs(t *testing.T) {
	rapid.Check(t, func(rt *rapid.T) {
		detrand.Seed(rapid.Uint64().Draw(rt, "entropy"))
		kind := gen.Pick(rt, "kind", []string{"public", "public", "public", "secretdata", "hkdfprf-salt", "ecies-salt"})
		switch kind {
		case "secretdata":
			p := &probe{t: rt, desc: "secretdata.NewBytesFromData"}
			data := rapid.SliceOfN(rapid.Byte(), 1, 80).Draw(rt, "data")
			sb := secretdata.NewBytesFromData(p.in("data", data), insecuresecretdataaccess.Token{})
			p.verify("NewBytesFromData")
			p.scribble()
			got := sb.Data(insecuresecretdataaccess.Token{})
			if !bytes.Equal(got, data) {
				rt.Fatalf("secretdata.Bytes changed when the caller overwrote the slice it was built from")
			}
			flipAll(got)
			if !bytes.Equal(sb.Data(insecuresecretdataaccess.Token{}), data) {
				rt.Fatalf("secretdata.Bytes.Data hands out internal memory")
			}
			if !sb.Equal(secretdata.NewBytesFromData(data, insecuresecretdataaccess.Token{})) {
				rt.Fatalf("secretdata.Bytes no longer Equal to a pristine twin")
			}
			finish(p, "ctor/secretdata", evid.NewH().B(data).Sum(), map[string]any{"len": len(data)})
		case "hkdfprf-salt":
			p := &probe{t: rt, desc: "hkdfprf.NewParameters(salt)"}
			salt := rapid.SliceOfN(rapid.Byte(), 1, 60).Draw(rt, "salt")
			params, err := hkdfprf.NewParameters(32, hkdfprf.SHA256, p.in("salt", salt))
			if err != nil {
				rt.Fatalf("hkdfprf.NewParameters: %v", err)
			}
			twin := tk.Must(hkdfprf.NewParameters(32, hkdfprf.SHA256, bytes.Clone(salt)))
			p.verify("NewParameters")
			p.scribble()
			if !params.Equal(twin) || !bytes.Equal(params.Salt(), salt) {
				knownOrFail(rt, "ctor-aliasing:hkdfprf.NewParameters:salt", "hkdfprf.NewParameters keeps the caller's salt slice: overwriting it afterwards changed the parameters object")
			}
			finish(p, "ctor/hkdfprf-salt", evid.NewH().B(salt).Sum(), map[string]any{"salt_len": len(salt)})
		case "ecies-salt":
			// ecies.NewParameters(ParametersOpts{Salt}): the parameters of a generated ECIES key, rebuilt
			// with a salt that lives in a caller buffer
			info := keys.DrawType(rt, "key", "EciesAeadHkdf")
			src := info.Public.Parameters().(*ecies.Parameters)
			p := &probe{t: rt, desc: "ecies.NewParameters(salt) from " + info.Desc}
			salt := rapid.SliceOfN(rapid.Byte(), 1, 60).Draw(rt, "salt")
			opts := ecies.ParametersOpts{CurveType: src.CurveType(), HashType: src.HashType(), NISTCurvePointFormat: src.NISTCurvePointFormat(), DEMParameters: src.DEMParameters(), Variant: src.Variant()}
			opts.Salt = p.in("salt", salt)
			params, err := ecies.NewParameters(opts)
			if err != nil {
				rt.Fatalf("%s: %v", p.desc, err)
			}
			opts.Salt = bytes.Clone(salt)
			twin := tk.Must(ecies.NewParameters(opts))
			p.verify("NewParameters")
			p.scribble()
			if !params.Equal(twin) || !bytes.Equal(params.Salt(), salt) {
				knownOrFail(rt, "ctor-aliasing:ecies.NewParameters:salt", fmt.Sprintf("%s: ecies.NewParameters keeps the caller's salt slice: overwriting it afterwards changed the parameters object (Salt() = %x, built with %x)", p.desc, params.Salt(), salt))
			}
			finish(p, "ctor/ecies-salt/"+src.CurveType().String(), evid.NewH().S(info.Desc).B(salt).Sum(), map[string]any{"salt_len": len(salt), "from": info.Desc})
		default:
			c := gen.Pick(rt, "class", []keys.Class{keys.Signature, keys.Hybrid, keys.JWTSignature})
			info := keys.DrawType(rt, "key", gen.Pick(rt, "key_type", weightedTypes(c, false)))
			if info.Public == nil {
				evid.Add("skipped/no_public_key/"+info.Type, 1)
				rt.Skip("no public key")
			}
			p := &probe{t: rt, desc: info.Desc}
			rebuilt, ctor, err := rebuildPublic(p, info.Public)
			if rebuilt == nil && err == nil {
				evid.Case("ctor/uncovered/"+info.Type, false, 0, nil)
				return
			}
			if err != nil {
				rt.Fatalf("%s: %s refuses the bytes of an existing public key: %v", info.Desc, ctor, err)
			}
			p.verify(ctor)
			if !rebuilt.Equal(info.Public) {
				rt.Fatalf("%s: %s built a key that is not Equal to the original", info.Desc, ctor)
			}
			p.scribble()
			if !rebuilt.Equal(info.Public) {
				knownOrFail(rt, "ctor-aliasing:"+ctor,
					fmt.Sprintf("%s: %s keeps the caller's slice: after the caller overwrote its buffer the key is no longer Equal to the original", info.Desc, ctor))
			}
			finish(p, "ctor/"+ctor, evid.NewH().S(info.Desc).Sum(), map[string]any{"key": info.Desc, "constructor": ctor})
		}
	})
}

// TestKeysetProtoDoesNotAlias: handles built from / exported to proto keysets share no memory with them.
func TestKeysetProtoDoesNotAlias(t *testing.T) {
	rapid.Check(t, func(rt *rapid.T) {
		detrand.Seed(rapid.Uint64().Draw(rt, "entropy"))
		var info *keys.Info
		var k key.Key
		var h *keyset.Handle
		var err error
		usePublic := false
		if rapid.IntRange(0, 2).Draw(rt, "fallback") == 0 {
			// a key type without registered proto parser: the fallback key and its serializers
			url := gen.Pick(rt, "url", []string{legacykm.MacURL, legacykm.AeadURL, legacykm.SignerURL, legacykm.VerifierURL, legacykm.HybridPrivURL, legacykm.HybridPubURL, legacykm.RemoteURL, legacykm.UnknownMatURL})
			pt := gen.Pick(rt, "prefixtype", prefixTypes)
			id := gen.KeyID(rt, "id") | 1
			val := gen.BytesN(rt, "value", 32)
			ks := &tinkpb.Keyset{PrimaryKeyId: id, Key: []*tinkpb.Keyset_Key{legacykm.Key(url, val, legacykm.Material(url), pt, id, tinkpb.KeyStatusType_ENABLED)}}
			h, err = legacykm.HandleFromProto(ks)
			if err != nil {
				rt.Fatalf("fallback key handle (%s): %v", url, err)
			}
			e, _ := h.Primary()
			k = e.Key()
			info = &keys.Info{Type: "Fallback(" + url[len("type.googleapis.com/"):] + ")", Desc: fmt.Sprintf("fallback key %s material=%v prefix=%v id=%#x value=%x", url, legacykm.Material(url), pt, id, val)}
			usePublic = legacykm.Material(url) == tinkpb.KeyData_ASYMMETRIC_PUBLIC || legacykm.Material(url) == tinkpb.KeyData_REMOTE
		} else {
			info = drawAnyKey(rt)
			usePublic = info.Public != nil && rapid.Bool().Draw(rt, "public")
			k = info.Key
			if usePublic {
				k = info.Public
			}
			if serialized(k) == nil {
				evid.Case("keyset/not-serializable", false, 0, nil)
				return
			}
			h, err = tk.HandleFromKey(k)
			if err != nil {
				rt.Fatalf("%s: %v", info.Desc, err)
			}
		}
		keyBefore := serialized(k)
		infoBefore := h.KeysetInfo().String()
		ksA := insecurecleartextkeyset.KeysetMaterial(h)
		pristine := proto.Clone(ksA).(*tinkpb.Keyset)
		// 1. mutate what KeysetMaterial handed out
		for _, kk := range ksA.GetKey() {
			flipAll(kk.GetKeyData().GetValue())
			kk.KeyId ^= 0xFFFF
			kk.Status = tinkpb.KeyStatusType_DESTROYED
		}
		ksA.PrimaryKeyId ^= 1
		ksB := insecurecleartextkeyset.KeysetMaterial(h)
		if !proto.Equal(ksB, pristine) || h.KeysetInfo().String() != infoBefore || !bytes.Equal(serialized(k), keyBefore) {
			knownOrFail(rt, "keyset-aliasing:KeysetMaterial:"+info.Type, fmt.Sprintf("%s: mutating the proto returned by KeysetMaterial changed the handle", info.Desc))
		}
		// 2. build a handle from a proto, then mutate the proto
		src := proto.Clone(pristine).(*tinkpb.Keyset)
		var h2 *keyset.Handle
		if usePublic {
			h2, err = keyset.NewHandleWithNoSecrets(src)
		} else {
			h2, err = insecurecleartextkeyset.Read(&keyset.MemReaderWriter{Keyset: src})
		}
		if err != nil {
			rt.Fatalf("%s: reading back its own keyset: %v", info.Desc, err)
		}
		// the call received the caller's proto: the byte slices inside it are the caller's and must be
		// as they were (c12 / c13 only count a modified input since the audit round)
		for i, kk := range src.GetKey() {
			if !bytes.Equal(kk.GetKeyData().GetValue(), pristine.GetKey()[i].GetKeyData().GetValue()) {
				rt.Fatalf("%s: building a handle from the caller's keyset proto changed the key data bytes of entry %d in that proto", info.Desc, i)
			}
		}
		for _, kk := range src.GetKey() {
			flipAll(kk.GetKeyData().GetValue())
			kk.KeyId ^= 0xFFFF
			kk.Status = tinkpb.KeyStatusType_DISABLED
		}
		src.PrimaryKeyId ^= 1
		// the reference: a handle read from a pristine copy that nobody touches (not the generated key:
		// whether reading gives back an Equal key is C12's)
		readRef := func() key.Key {
			var hr *keyset.Handle
			var err error
			if usePublic {
				hr, err = keyset.NewHandleWithNoSecrets(proto.Clone(pristine).(*tinkpb.Keyset))
			} else {
				hr, err = insecurecleartextkeyset.Read(&keyset.MemReaderWriter{Keyset: proto.Clone(pristine).(*tinkpb.Keyset)})
			}
			if err != nil {
				rt.Fatalf("%s: reading back its own keyset: %v", info.Desc, err)
			}
			return tk.Must(hr.Primary()).Key()
		}
		kRef := readRef()
		if !kRef.Equal(k) {
			evid.Add("observed_not_asserted/C12_read_key_not_equal_to_original/"+info.Type, 1)
		}
		e, err := h2.Primary()
		if err != nil || !e.Key().Equal(kRef) || !proto.Equal(insecurecleartextkeyset.KeysetMaterial(h2), pristine) {
			knownOrFail(rt, "keyset-aliasing:handle-from-proto:"+info.Type, fmt.Sprintf("%s: mutating the proto a handle was built from changed the handle (public route=%v)", info.Desc, usePublic))
		}
		// 3. the serialized forms: Write... hands the keyset to a writer, Read... decodes the bytes the
		// caller holds in its own buffer: neither writes into the caller's associated data or serialized
		// bytes, and the handle read shares nothing with the buffer it was decoded from.
		p := &probe{t: rt, desc: info.Desc}
		format := gen.Pick(rt, "format", []string{"binary", "json"})
		route := "no-secrets"
		if !usePublic {
			route = gen.Pick(rt, "io_route", []string{"associated-data", "cleartext"})
		}
		var out bytes.Buffer
		var w keyset.Writer = keyset.NewBinaryWriter(&out)
		if format == "json" {
			w = keyset.NewJSONWriter(&out)
		}
		masterKey := gen.BytesN(rt, "masterkey", 32)
		master := tk.Must(aeadsubtle.NewAESGCM(masterKey))
		ad := gen.BytesOrNil(rt, "keyset_ad", 40)
		switch route {
		case "no-secrets":
			err = h.WriteWithNoSecrets(w)
		case "cleartext":
			err = insecurecleartextkeyset.Write(h, w)
		default:
			err = h.WriteWithAssociatedData(w, master, p.in("associated data (write)", ad))
		}
		if err != nil {
			rt.Fatalf("%s: writing the keyset (%s, %s): %v", info.Desc, route, format, err)
		}
		p.verify("Write")
		stored := p.in("serialized keyset", out.Bytes())
		newReader := func() keyset.Reader {
			if format == "json" {
				return keyset.NewJSONReader(bytes.NewReader(stored))
			}
			return keyset.NewBinaryReader(bytes.NewReader(stored))
		}
		var h3 *keyset.Handle
		switch route {
		case "no-secrets":
			h3, err = keyset.ReadWithNoSecrets(newReader())
		case "cleartext":
			h3, err = insecurecleartextkeyset.Read(newReader())
		default:
			_, errBad := keyset.ReadWithAssociatedData(newReader(), master, p.in("other associated data", append(bytes.Clone(ad), 1)))
			failing(errBad)
			p.verify("ReadWithAssociatedData(other associated data)")
			h3, err = keyset.ReadWithAssociatedData(newReader(), master, p.in("associated data (read)", ad))
		}
		if err != nil {
			rt.Fatalf("%s: reading back the keyset just written (%s, %s, master key %x, associated data %x): %v", info.Desc, route, format, masterKey, ad, err)
		}
		p.verify("Read")
		p.scribble() // the caller reuses the buffer that held the serialized keyset, and its associated data
		e3, err := h3.Primary()
		if err != nil || !e3.Key().Equal(kRef) || !proto.Equal(insecurecleartextkeyset.KeysetMaterial(h3), pristine) {
			knownOrFail(rt, "keyset-aliasing:handle-from-bytes:"+info.Type, fmt.Sprintf("%s: a handle read (%s, %s) from bytes in a caller buffer changed when the caller overwrote that buffer", info.Desc, route, format))
		}
		evid.Case("keyset/"+info.Type+"/"+route+"/"+format, true, evid.NewH().S(info.Desc).I(int64(len(pristine.GetKey()))).S(route).S(format).Sum(), func() any {
			return map[string]any{"key": info.Desc, "public": usePublic, "io_route": route, "format": format}
		})
	})
}
