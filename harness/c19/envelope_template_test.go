package c19

import (
	"bytes"
	"context"
	"encoding/binary"
	"testing"

	"google.golang.org/protobuf/proto"
	"pgregory.net/rapid"

	"github.com/tink-crypto/tink-go/v2/aead"
	aeadsubtle "github.com/tink-crypto/tink-go/v2/aead/subtle"
	tinkpb "github.com/tink-crypto/tink-go/v2/proto/tink_go_proto"
	"github.com/tink-crypto/tink-go/v2/verifharness/internal/detrand"
	"github.com/tink-crypto/tink-go/v2/verifharness/internal/evid"
	"github.com/tink-crypto/tink-go/v2/verifharness/internal/gen"
	"github.com/tink-crypto/tink-go/v2/verifharness/internal/tk"
)

// TestEnvelopeTemplateNotRetained: the DEK template handed to the KMS envelope constructors is an
// input whose bytes (KeyTemplate.value) belong to the caller: "mutating an input after the call ...
// never changes ... later results of a primitive built before ... the mutation". After construction
// the caller overwrites the template's value bytes in place (and its type URL string); the envelope
// AEAD must go on encrypting with DEKs of the template it was built with - same encrypted-DEK length
// as a twin built from an untouched copy - and decrypt what it encrypted before.
// (Found by the read-only defect hunt: the constructors kept the caller's *KeyTemplate: F26.)
func TestEnvelopeTemplateNotRetained(t *testing.T) {
	templates := []func() *tinkpb.KeyTemplate{aead.AES128GCMKeyTemplate, aead.AES256GCMKeyTemplate, aead.AES128CTRHMACSHA256KeyTemplate, aead.ChaCha20Poly1305KeyTemplate, aead.AES256GCMSIVKeyTemplate}
	rapid.Check(t, func(rt *rapid.T) {
		detrand.Seed(rapid.Uint64().Draw(rt, "entropy"))
		ti := gen.Uniform(rt, "template", len(templates))
		api := gen.Pick(rt, "api", tk.EnvelopeAPIs)
		kek := tk.Must(aeadsubtle.NewAESGCM(gen.BytesN(rt, "kek", 16)))
		mine := proto.Clone(templates[ti]()).(*tinkpb.KeyTemplate)
		pristine := proto.Clone(mine).(*tinkpb.KeyTemplate)
		e, err := tk.Envelope(api, mine, kek)
		if err != nil {
			rt.Fatalf("envelope constructor (%s, template %d): %v", api, ti, err)
		}
		twin, err := tk.Envelope(api, pristine, kek)
		if err != nil {
			rt.Fatal(err)
		}
		pt, ad := gen.Bytes(rt, "pt", 100), gen.BytesOrNil(rt, "ad", 40)
		ct1, err := e.Encrypt(pt, ad)
		if err != nil {
			rt.Fatalf("Encrypt: %v", err)
		}
		// the caller reuses its template object
		for i := range mine.Value {
			mine.Value[i] ^= 0xA5
		}
		if rapid.Bool().Draw(rt, "also_type_url") {
			mine.TypeUrl = "type.googleapis.com/google.crypto.tink.HmacKey"
		}
		ct2, err := e.Encrypt(pt, ad)
		if err != nil {
			rt.Fatalf("envelope AEAD (%s, DEK template %s): after the caller overwrote the DEK template object it had passed to the constructor, Encrypt fails: %v", api, pristine.GetTypeUrl(), err)
		}
		ref, err := twin.Encrypt(pt, ad)
		if err != nil {
			rt.Fatal(err)
		}
		dekLen := func(ct []byte) int { return int(binary.BigEndian.Uint32(ct[:4])) }
		if dekLen(ct2) != dekLen(ref) {
			rt.Fatalf("envelope AEAD (%s, DEK template %s): after the caller overwrote its template object the encrypted DEK has %d bytes, an envelope built from an untouched copy gives %d", api, pristine.GetTypeUrl(), dekLen(ct2), dekLen(ref))
		}
		for i, ct := range [][]byte{ct1, ct2, ref} {
			got, err := e.Decrypt(ct, ad)
			if err != nil || !bytes.Equal(got, pt) {
				rt.Fatalf("envelope AEAD (%s, DEK template %s): after the caller overwrote its template object Decrypt of ciphertext #%d fails: %v", api, pristine.GetTypeUrl(), i, err)
			}
		}
		_ = context.Background
		evid.Case("envelope-template/"+api+"/"+pristine.GetTypeUrl()[len("type.googleapis.com/google.crypto.tink."):], true, evid.NewH().S(api).I(int64(ti)).B(pt).Sum(), nil)
	})
}
