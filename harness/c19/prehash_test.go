package c19

import (
	"bytes"
	"testing"

	"pgregory.net/rapid"

	"github.com/tink-crypto/tink-go/v2/keyset"
	"github.com/tink-crypto/tink-go/v2/signature"
	"github.com/tink-crypto/tink-go/v2/signature/mldsa"
	"github.com/tink-crypto/tink-go/v2/signprehash"
	"github.com/tink-crypto/tink-go/v2/verifharness/internal/detrand"
	"github.com/tink-crypto/tink-go/v2/verifharness/internal/evid"
	"github.com/tink-crypto/tink-go/v2/verifharness/internal/gen"
	"github.com/tink-crypto/tink-go/v2/verifharness/internal/tk"
)

// TestPrehashBuffers: the prehash (external-mu) primitives: ComputePrehash must not write into
// its argument, successive results must not share memory with each other or with the primitive,
// and mutating a result must not change later results.
func TestPrehashBuffers(t *testing.T) {
	rapid.Check(t, func(rt *rapid.T) {
		detrand.Seed(rapid.Uint64().Draw(rt, "entropy"))
		inst := rapid.SampledFrom([]mldsa.Instance{mldsa.MLDSA44, mldsa.MLDSA65, mldsa.MLDSA87}).Draw(rt, "instance")
		params := tk.Must(mldsa.NewParameters(inst, mldsa.VariantNoPrefixWithPrehashID))
		m := keyset.NewManager()
		id := tk.Must(m.AddNewKeyFromParameters(params))
		if err := m.SetPrimary(id); err != nil {
			rt.Fatal(err)
		}
		h := tk.Must(m.Handle())
		pub := tk.Must(h.Public())
		ph := tk.Must(signprehash.NewPrehash(pub))
		phs := tk.Must(signprehash.NewPrehashSigner(h))
		v := tk.Must(signature.NewVerifier(pub))
		desc := "signprehash ML-DSA " + inst.String()
		p := &probe{t: rt, desc: desc}
		n := rapid.IntRange(2, 4).Draw(rt, "messages")
		var msgs, digests, saved [][]byte
		for i := 0; i < n; i++ {
			msg := gen.Bytes(rt, "msg", 100)
			d, err := ph.ComputePrehash(p.in("message", msg))
			if err != nil {
				rt.Fatalf("%s: ComputePrehash: %v", desc, err)
			}
			p.verify("ComputePrehash")
			p.out("ComputePrehash", "prehash", d)
			msgs, digests, saved = append(msgs, msg), append(digests, d), append(saved, bytes.Clone(d))
		}
		for i := range digests {
			if !bytes.Equal(digests[i], saved[i]) {
				rt.Fatalf("%s: the prehash of message #%d changed after later ComputePrehash calls", desc, i)
			}
			sig, err := phs.SignPrehash(p.in("prehash", digests[i]))
			if err != nil {
				rt.Fatalf("%s: SignPrehash: %v", desc, err)
			}
			p.verify("SignPrehash")
			p.out("SignPrehash", "signature", sig)
			if err := v.Verify(sig, msgs[i]); err != nil {
				rt.Fatalf("%s: signature made through the prehash path for message #%d of a batch of %d does not verify: %v", desc, i, n, err)
			}
		}
		flipAll(digests[0])
		again, err := ph.ComputePrehash(msgs[0])
		if err != nil || !bytes.Equal(again, saved[0]) {
			rt.Fatalf("%s: ComputePrehash changed after the caller mutated an earlier result", desc)
		}
		// one message buffer reused for a second message on the same object
		buf := p.in("reused message", msgs[0])
		if _, err := ph.ComputePrehash(buf); err != nil {
			rt.Fatalf("%s: ComputePrehash: %v", desc, err)
		}
		p.verify("ComputePrehash")
		p.scribble()
		cur := bytes.Clone(buf)
		got, err1 := ph.ComputePrehash(buf)
		want, err2 := tk.Must(signprehash.NewPrehash(pub)).ComputePrehash(cur)
		if err1 != nil || err2 != nil || !bytes.Equal(got, want) {
			rt.Fatalf("%s: ComputePrehash through a buffer that held another message at the previous call differs from a fresh object's result (%v, %v)", desc, err1, err2)
		}
		finish(p, "prehash/"+inst.String(), evid.NewH().S(desc).I(int64(id)).B(msgs[0]).Sum(), map[string]any{"primitive": desc, "batch": n})
	})
}
