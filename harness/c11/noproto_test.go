package c11

import (
	"fmt"
	"testing"

	"pgregory.net/rapid"

	"github.com/tink-crypto/tink-go/v2/aead/aesgcm"
	"github.com/tink-crypto/tink-go/v2/internal/internalapi"
	"github.com/tink-crypto/tink-go/v2/keyset"
	"github.com/tink-crypto/tink-go/v2/verifharness/internal/detrand"
	"github.com/tink-crypto/tink-go/v2/verifharness/internal/evid"
	"github.com/tink-crypto/tink-go/v2/verifharness/internal/gen"
	"github.com/tink-crypto/tink-go/v2/verifharness/internal/tk"
)

// TestHandleNeverPanics: two corners of "Handle() either fails ... or returns a keyset with pairwise
// distinct key IDs and exactly one primary key, which is ENABLED" and "an operation that returns an
// error leaves the keyset unchanged; ... every status" that the state machine's model (which
// serializes every key to compare) cannot hold:
//
//   - a key object that is valid but has no proto form (AES-GCM with a tag size other than 16 or an IV
//     size other than 12) is added with AddKey; with annotations set, building the handle has to
//     describe the keyset to the monitoring client. Handle() may fail or succeed - it must not panic,
//     and a handle it returns must have distinct IDs and exactly one primary, ENABLED (read through the
//     Entry API; String / KeysetInfo of such a handle are C13's subject);
//   - AddKeyWithOpts(WithStatus(s)) with a status value outside {Enabled, Disabled, Destroyed} (the
//     type is an int: 4, 99, -1 ...) must be refused like Unknown, leaving the keyset unchanged
//     (the same number of entries in the next handle).
//
// (Both found by a read-only defect hunt in the library: F21, F22.)
func TestHandleNeverPanics(t *testing.T) {
	rapid.Check(t, func(rt *rapid.T) {
		detrand.Seed(rapid.Uint64().Draw(rt, "entropy"))
		m := keyset.NewManager()
		good := aesKey(rt, true, gen.KeyID(rt, "good_id"))
		if _, err := m.AddKeyWithOpts(good, internalapi.Token{}, keyset.AsPrimary()); err != nil {
			rt.Fatalf("AddKeyWithOpts(AES-GCM key, AsPrimary): %v", err)
		}
		want := 1
		desc := ""
		steps := rapid.IntRange(1, 4).Draw(rt, "steps")
		for i := 0; i < steps; i++ {
			switch gen.Pick(rt, fmt.Sprintf("step%d", i), []string{"noproto", "noproto", "status", "annotations", "plain"}) {
			case "noproto":
				iv, tag := 12, 16
				if rapid.Bool().Draw(rt, "odd_iv") {
					iv = gen.Pick(rt, "iv", []int{13, 14, 15, 16})
				} else {
					tag = gen.Pick(rt, "tag", []int{12, 13, 14, 15})
				}
				p, err := aesgcm.NewParameters(aesgcm.ParametersOpts{KeySizeInBytes: 16, IVSizeInBytes: iv, TagSizeInBytes: tag, Variant: aesgcm.VariantNoPrefix})
				if err != nil {
					rt.Fatalf("aesgcm.NewParameters(iv %d, tag %d): %v", iv, tag, err)
				}
				k := tk.Must(aesgcm.NewKey(tk.Secret(gen.BytesN(rt, "noproto_key", 16)), 0, p))
				if _, err := m.AddKey(k); err == nil {
					want++
					desc += fmt.Sprintf(" AddKey(AES-GCM iv=%d tag=%d: no proto form)=ok", iv, tag)
				} else {
					desc += fmt.Sprintf(" AddKey(AES-GCM iv=%d tag=%d)=refused", iv, tag)
				}
			case "status":
				st := gen.Pick(rt, "status", []keyset.KeyStatus{4, 5, 99, -1, 1 << 20})
				_, err := m.AddKeyWithOpts(aesKey(rt, false, 0), internalapi.Token{}, keyset.WithStatus(st))
				if err == nil {
					rt.Fatalf("after%s: AddKeyWithOpts(WithStatus(%d)) accepted a status outside Enabled / Disabled / Destroyed", desc, int(st))
				}
				desc += fmt.Sprintf(" AddKeyWithOpts(WithStatus(%d))=refused", int(st))
			case "annotations":
				if err := m.SetAnnotations(map[string]string{"owner": "c11"}); err != nil {
					rt.Fatalf("SetAnnotations: %v", err)
				}
				desc += " SetAnnotations"
			case "plain":
				if _, err := m.AddKey(aesKey(rt, false, 0)); err != nil {
					rt.Fatalf("after%s: AddKey(AES-GCM NO_PREFIX): %v", desc, err)
				}
				want++
				desc += " AddKey(plain)"
			}
			var h *keyset.Handle
			var herr error
			func() {
				defer func() {
					if r := recover(); r != nil {
						rt.Fatalf("after%s: Manager.Handle() PANICKED: %v", desc, r)
					}
				}()
				h, herr = m.Handle()
			}()
			if herr != nil {
				evid.Add("handle_refused_with_key_without_proto_form", 1)
				continue
			}
			if h.Len() != want {
				rt.Fatalf("after%s: Handle() has %d entries, want %d", desc, h.Len(), want)
			}
			ids, primaries := map[uint32]bool{}, 0
			for j := 0; j < h.Len(); j++ {
				e, err := h.Entry(j)
				if err != nil {
					rt.Fatalf("after%s: Entry(%d): %v", desc, j, err)
				}
				if ids[e.KeyID()] {
					rt.Fatalf("after%s: Handle() repeats key ID %#x", desc, e.KeyID())
				}
				ids[e.KeyID()] = true
				if e.IsPrimary() {
					primaries++
					if e.KeyStatus() != keyset.Enabled {
						rt.Fatalf("after%s: the primary of Handle() has status %v", desc, e.KeyStatus())
					}
				}
			}
			if primaries != 1 {
				rt.Fatalf("after%s: Handle() has %d primary entries", desc, primaries)
			}
		}
		evid.Case("never-panics/steps="+fmt.Sprint(steps), true, evid.NewH().S(desc).Sum(), func() any { return desc })
	})
}
