// Package c11 decides property C11: the keyset manager keeps keysets well-formed under any
// operation history (rapid state machine against an executable model).
package c11

import (
	"fmt"
	"maps"
	"strings"
	"testing"

	"google.golang.org/protobuf/proto"
	"pgregory.net/rapid"

	"github.com/tink-crypto/tink-go/v2/aead"
	"github.com/tink-crypto/tink-go/v2/aead/aesgcm"
	"github.com/tink-crypto/tink-go/v2/insecurecleartextkeyset"
	"github.com/tink-crypto/tink-go/v2/internal/internalapi"
	"github.com/tink-crypto/tink-go/v2/internal/protoserialization"
	"github.com/tink-crypto/tink-go/v2/key"
	"github.com/tink-crypto/tink-go/v2/keyset"
	"github.com/tink-crypto/tink-go/v2/mac"
	"github.com/tink-crypto/tink-go/v2/mac/hmac"
	kmsepb "github.com/tink-crypto/tink-go/v2/proto/kms_envelope_go_proto"
	tinkpb "github.com/tink-crypto/tink-go/v2/proto/tink_go_proto"
	"github.com/tink-crypto/tink-go/v2/signature"
	"github.com/tink-crypto/tink-go/v2/signature/mldsa"
	"github.com/tink-crypto/tink-go/v2/verifharness/internal/detrand"
	"github.com/tink-crypto/tink-go/v2/verifharness/internal/evid"
	"github.com/tink-crypto/tink-go/v2/verifharness/internal/gen"
	"github.com/tink-crypto/tink-go/v2/verifharness/internal/kf"
	"github.com/tink-crypto/tink-go/v2/verifharness/internal/legacykm"
	"github.com/tink-crypto/tink-go/v2/verifharness/internal/tk"
)

func TestMain(m *testing.M) {
	legacykm.Register() // key managers for harness-owned type URLs: Manager.Add's legacy-registry branch
	evid.Main(m)
}

type mEntry struct {
	id      uint32
	status  keyset.KeyStatus
	primary bool
	key     key.Key // nil until learnt from the snapshot (generated keys)
}

type model struct {
	entries []mEntry
	used    map[uint32]bool // IDs this manager must not hand out again (live + deleted + consumed)
}

func (m *model) find(id uint32) int {
	for i, e := range m.entries {
		if e.id == id {
			return i
		}
	}
	return -1
}
func (m *model) hasPrimary() bool {
	for _, e := range m.entries {
		if e.primary {
			return true
		}
	}
	return false
}
func (m *model) String() string {
	var sb strings.Builder
	for _, e := range m.entries {
		p := ""
		if e.primary {
			p = "*"
		}
		fmt.Fprintf(&sb, "[%d %v%s]", e.id, e.status, p)
	}
	return sb.String()
}

type pair struct {
	mgr *keyset.Manager
	mod *model
	// annot models the manager's annotations (SetAnnotations); a manager made from a handle starts
	// without any
	annot map[string]string
}

type savedHandle struct {
	h       *keyset.Handle
	entries []mEntry
	info    string
	annot   map[string]string // the handle's annotations when it was obtained (a private copy)
}

// annotEqual: nil and empty annotations are the same thing (no annotations).
func annotEqual(a, b map[string]string) bool {
	if len(a) != len(b) {
		return false
	}
	for k, v := range a {
		if w, ok := b[k]; !ok || w != v {
			return false
		}
	}
	return true
}

func snapshotEqual(a, b []keyset.VerifEntry) bool {
	if len(a) != len(b) {
		return false
	}
	for i := range a {
		if a[i].ID != b[i].ID || a[i].Status != b[i].Status || a[i].IsPrimary != b[i].IsPrimary || a[i].Key != b[i].Key {
			return false
		}
	}
	return true
}

func snapString(s []keyset.VerifEntry) string {
	var sb strings.Builder
	for _, e := range s {
		p := ""
		if e.IsPrimary {
			p = "*"
		}
		fmt.Fprintf(&sb, "[%d %v%s]", e.ID, e.Status, p)
	}
	return sb.String()
}

var statuses = []keyset.KeyStatus{keyset.Enabled, keyset.Disabled, keyset.Destroyed, keyset.Unknown}

func withPrefix(kt *tinkpb.KeyTemplate, p tinkpb.OutputPrefixType) *tinkpb.KeyTemplate {
	c := proto.Clone(kt).(*tinkpb.KeyTemplate)
	c.OutputPrefixType = p
	return c
}

// envelopeTemplate builds a KmsEnvelopeAeadKey template by hand (the library helper refuses DEK
// templates that are not AEAD ones; the key manager must refuse them too).
func envelopeTemplate(uri string, dek *tinkpb.KeyTemplate) *tinkpb.KeyTemplate {
	v := tk.Must(proto.Marshal(&kmsepb.KmsEnvelopeAeadKeyFormat{KekUri: uri, DekTemplate: dek}))
	return &tinkpb.KeyTemplate{TypeUrl: "type.googleapis.com/google.crypto.tink.KmsEnvelopeAeadKey", Value: v, OutputPrefixType: tinkpb.OutputPrefixType_RAW}
}

type tmpl struct {
	name  string
	kt    *tinkpb.KeyTemplate
	valid bool
	raw   bool
}

func templates() []tmpl {
	badSize := proto.Clone(aead.AES128GCMKeyTemplate()).(*tinkpb.KeyTemplate)
	badSize.Value = []byte{0x10, 0x07} // AesGcmKeyFormat{key_size: 7}
	return []tmpl{
		{"AES128GCM/TINK", aead.AES128GCMKeyTemplate(), true, false},
		{"AES256GCM/RAW", aead.AES256GCMNoPrefixKeyTemplate(), true, true},
		{"AES128GCM/CRUNCHY", withPrefix(aead.AES128GCMKeyTemplate(), tinkpb.OutputPrefixType_CRUNCHY), true, false},
		{"HMAC/TINK", mac.HMACSHA256Tag128KeyTemplate(), true, false},
		{"HMAC/LEGACY", withPrefix(mac.HMACSHA256Tag128KeyTemplate(), tinkpb.OutputPrefixType_LEGACY), true, false},
		{"ED25519/TINK", signature.ED25519KeyTemplate(), true, false},
		{"ED25519/RAW", signature.ED25519KeyWithoutPrefixTemplate(), true, true},
		// the fifth prefix type: no output prefix, but the key is bound to its ID (added after seeded change
		// C11m / C12m: Manager.Add listed the prefix types that carry the ID and forgot this one)
		{"MLDSA65/WITH_ID_REQUIREMENT", tk.Must(protoserialization.SerializeParameters(tk.Must(mldsa.NewParameters(mldsa.MLDSA65, mldsa.VariantNoPrefixWithPrehashID)))), true, false},
		{"nil", nil, false, false},
		{"UNKNOWN_PREFIX", withPrefix(aead.AES128GCMKeyTemplate(), tinkpb.OutputPrefixType_UNKNOWN_PREFIX), false, false},
		{"unregistered-url", &tinkpb.KeyTemplate{TypeUrl: "type.googleapis.com/verif.DoesNotExist", OutputPrefixType: tinkpb.OutputPrefixType_TINK}, false, false},
		{"bad-key-size", badSize, false, false},
		// key types without a parameters parser: Manager.Add falls back to the key-manager registry
		// (registry.NewKeyData, NewKeySerialization, ParseKey -> fallback key)
		{"legacy-mac/TINK", &tinkpb.KeyTemplate{TypeUrl: legacykm.MacURL, OutputPrefixType: tinkpb.OutputPrefixType_TINK}, true, false},
		{"legacy-aead/RAW", &tinkpb.KeyTemplate{TypeUrl: legacykm.AeadURL, OutputPrefixType: tinkpb.OutputPrefixType_RAW}, true, true},
		{"legacy-signer/LEGACY", &tinkpb.KeyTemplate{TypeUrl: legacykm.SignerURL, OutputPrefixType: tinkpb.OutputPrefixType_LEGACY}, true, false},
		{"legacy-daead/CRUNCHY", &tinkpb.KeyTemplate{TypeUrl: legacykm.DaeadURL, OutputPrefixType: tinkpb.OutputPrefixType_CRUNCHY}, true, false},
		{"legacy-mac/refused-format", &tinkpb.KeyTemplate{TypeUrl: legacykm.MacURL, Value: legacykm.RefusedFormat, OutputPrefixType: tinkpb.OutputPrefixType_TINK}, false, false},
		{"legacy-aead/UNKNOWN_PREFIX", &tinkpb.KeyTemplate{TypeUrl: legacykm.AeadURL, OutputPrefixType: tinkpb.OutputPrefixType_UNKNOWN_PREFIX}, false, false},
		{"kms-envelope/AES128GCM-dek", tk.Must(aead.CreateKMSEnvelopeAEADKeyTemplate("fake-kms://c11-kek", aead.AES128GCMKeyTemplate())), true, true},
		{"kms-envelope/HMAC-dek (refused by its key manager)", envelopeTemplate("fake-kms://c11-kek", mac.HMACSHA256Tag128KeyTemplate()), false, false},
	}
}

func aesKey(rt *rapid.T, withReq bool, id uint32) key.Key {
	v := aesgcm.VariantNoPrefix
	if withReq {
		v = rapid.SampledFrom([]aesgcm.Variant{aesgcm.VariantTink, aesgcm.VariantCrunchy}).Draw(rt, "aesvariant")
	} else {
		id = 0
	}
	p := tk.Must(aesgcm.NewParameters(aesgcm.ParametersOpts{KeySizeInBytes: 16, IVSizeInBytes: 12, TagSizeInBytes: 16, Variant: v}))
	return tk.Must(aesgcm.NewKey(tk.Secret(gen.BytesN(rt, "keybytes", 16)), id, p))
}

func hmacKey(rt *rapid.T, withReq bool, id uint32) key.Key {
	v := hmac.VariantNoPrefix
	if withReq {
		v = rapid.SampledFrom([]hmac.Variant{hmac.VariantTink, hmac.VariantCrunchy, hmac.VariantLegacy}).Draw(rt, "hmacvariant")
	} else {
		id = 0
	}
	p := tk.Must(hmac.NewParameters(hmac.ParametersOpts{KeySizeInBytes: 16, TagSizeInBytes: 16, HashType: hmac.SHA256, Variant: v}))
	return tk.Must(hmac.NewKey(tk.Secret(gen.BytesN(rt, "keybytes", 16)), p, id))
}

// drawID draws an ID biased towards IDs the history has already seen.
func drawID(rt *rapid.T, label string, m *model, everSeen []uint32) uint32 {
	k := rapid.IntRange(0, 9).Draw(rt, label+"_src")
	switch {
	case k < 6 && len(m.entries) > 0:
		return m.entries[rapid.IntRange(0, len(m.entries)-1).Draw(rt, label+"_live")].id
	case k < 8 && len(everSeen) > 0:
		return everSeen[rapid.IntRange(0, len(everSeen)-1).Draw(rt, label+"_seen")]
	default:
		return gen.KeyID(rt, label)
	}
}

const propID = "C11"

func TestManagerHistories(t *testing.T) {
	tmpls := templates()
	rapid.Check(t, func(rt *rapid.T) {
		detrand.Seed(rapid.Uint64().Draw(rt, "entropy"))
		pairs := []*pair{{mgr: keyset.NewManager(), mod: &model{used: map[uint32]bool{}}}}
		var handles []savedHandle
		var everSeen []uint32
		var history []string
		failedOps, stateChanges, promotes, afterPromoteChange := 0, 0, 0, false
		annotOps, repeatedOpts := 0, 0
		actionCount := map[string]int{}
		log := func(f string, a ...any) { history = append(history, fmt.Sprintf(f, a...)) }
		fail := func(f string, a ...any) {
			rt.Fatalf("%s\nhistory:\n  %s", fmt.Sprintf(f, a...), strings.Join(history, "\n  "))
		}
		pick := func() *pair { return pairs[rapid.IntRange(0, len(pairs)-1).Draw(rt, "mgr")] }

		// after runs the bookkeeping common to every mutating operation.
		after := func(p *pair, op string, before []keyset.VerifEntry, err error, expectErr bool, lenient bool) bool {
			actionCount[strings.SplitN(op, "(", 2)[0]]++
			now := p.mgr.VerifSnapshot()
			if err != nil {
				failedOps++
				if !snapshotEqual(before, now) {
					fail("%s returned error %q but changed the keyset: before %s after %s", op, err, snapString(before), snapString(now))
				}
			} else {
				stateChanges++
				if promotes > 0 {
					afterPromoteChange = true
				}
			}
			if !lenient && (err != nil) != expectErr {
				fail("%s: error=%v, model expected error=%v (model state %v)", op, err, expectErr, p.mod)
			}
			log("%s -> err=%v", op, err)
			return err == nil
		}
		// learnAppend syncs the model with a newly appended entry.
		learnAppend := func(p *pair, op string, id uint32, status keyset.KeyStatus, primary bool, wantReq *uint32) {
			snap := p.mgr.VerifSnapshot()
			if len(snap) != len(p.mod.entries)+1 {
				fail("%s succeeded but entry count went %d -> %d", op, len(p.mod.entries), len(snap))
			}
			last := snap[len(snap)-1]
			if last.ID != id {
				fail("%s returned id %d but appended entry has id %d", op, id, last.ID)
			}
			if p.mod.find(id) >= 0 {
				fail("%s handed out id %d which is already live in %v", op, id, p.mod)
			}
			if req, has := last.Key.IDRequirement(); has && req != id {
				fail("%s: key requires id %d but sits under %d", op, req, id)
			}
			if wantReq != nil {
				if req, has := last.Key.IDRequirement(); !has || req != *wantReq {
					fail("%s: key should require id %d, has (%d,%v)", op, *wantReq, req, has)
				}
			}
			if primary {
				for i := range p.mod.entries {
					p.mod.entries[i].primary = false
				}
			}
			p.mod.entries = append(p.mod.entries, mEntry{id: id, status: status, primary: primary, key: last.Key})
			p.mod.used[id] = true
			everSeen = append(everSeen, id)
		}

		rt.Repeat(map[string]func(*rapid.T){
			"Add": func(rt *rapid.T) {
				p := pick()
				tm := rapid.SampledFrom(tmpls).Draw(rt, "template")
				if rapid.IntRange(0, 3).Draw(rt, "reseed") == 0 {
					// replay the entropy stream: the next random ID candidate repeats an earlier one
					detrand.Seed(uint64(rapid.IntRange(1, 3).Draw(rt, "reseedval")))
				}
				before := p.mgr.VerifSnapshot()
				id, err := p.mgr.Add(tm.kt)
				if after(p, "Add("+tm.name+")", before, err, !tm.valid, false) {
					if p.mod.used[id] {
						fail("Add handed out id %d that this manager had already used (%v)", id, p.mod)
					}
					learnAppend(p, "Add("+tm.name+")", id, keyset.Enabled, false, nil)
					if req, has := p.mgr.VerifSnapshot()[len(p.mod.entries)-1].Key.IDRequirement(); has == tm.raw || (has && req != id) {
						fail("Add(%s): id requirement (%d,%v) does not match prefix type / id %d", tm.name, req, has, id)
					}
				}
			},
			"AddNewKeyFromParameters": func(rt *rapid.T) {
				p := pick()
				v := rapid.SampledFrom([]aesgcm.Variant{aesgcm.VariantTink, aesgcm.VariantCrunchy, aesgcm.VariantNoPrefix}).Draw(rt, "variant")
				ks := rapid.SampledFrom([]int{16, 32, 24}).Draw(rt, "keysize")
				var params key.Parameters
				params, perr := aesgcm.NewParameters(aesgcm.ParametersOpts{KeySizeInBytes: ks, IVSizeInBytes: 12, TagSizeInBytes: 16, Variant: v})
				if perr != nil {
					rt.Skip("parameters refused")
				}
				op := fmt.Sprintf("AddNewKeyFromParameters(aesgcm %d %v)", ks, v)
				// one case in four: parameters of the fifth prefix kind (no output prefix, key bound to its ID)
				if rapid.IntRange(0, 3).Draw(rt, "mldsa_prehash_id") == 0 {
					params, ks = tk.Must(mldsa.NewParameters(mldsa.MLDSA65, mldsa.VariantNoPrefixWithPrehashID)), 0
					op = "AddNewKeyFromParameters(mldsa65 NoPrefixWithPrehashID)"
				}
				before := p.mgr.VerifSnapshot()
				id, err := p.mgr.AddNewKeyFromParameters(params)
				// key size 24 is accepted by the parameters; whether a key can be generated is the
				// library's choice, so the outcome is taken as observed.
				if after(p, op, before, err, false, ks == 24) {
					if p.mod.used[id] {
						fail("%s handed out used id %d", op, id)
					}
					learnAppend(p, op, id, keyset.Enabled, false, nil)
					if req, has := p.mgr.VerifSnapshot()[len(p.mod.entries)-1].Key.IDRequirement(); has != params.HasIDRequirement() || (has && req != id) {
						fail("%s: id requirement (%d,%v) does not match the parameters / id %d", op, req, has, id)
					}
				}
			},
			"AddKey": func(rt *rapid.T) {
				p := pick()
				withReq := rapid.Bool().Draw(rt, "withreq")
				id := drawID(rt, "id", p.mod, everSeen)
				var k key.Key
				if rapid.Bool().Draw(rt, "hmac") {
					k = hmacKey(rt, withReq, id)
				} else {
					k = aesKey(rt, withReq, id)
				}
				before := p.mgr.VerifSnapshot()
				got, err := p.mgr.AddKey(k)
				op := fmt.Sprintf("AddKey(req=%v id=%d)", withReq, id)
				live := withReq && p.mod.find(id) >= 0
				onlyDeleted := withReq && !live && p.mgr.VerifUnavailableIDs()[id]
				// colliding with a live ID must fail; colliding only with an ID the manager has reserved
				// (deleted earlier, or consumed by a failed Add) may fail or succeed - the property leaves
				// that open.
				if after(p, op, before, err, live, onlyDeleted) {
					if withReq && got != id {
						fail("%s returned id %d", op, got)
					}
					if !withReq && p.mod.used[got] {
						fail("%s handed out used id %d", op, got)
					}
					var want *uint32
					if withReq {
						want = &id
					}
					learnAppend(p, op, got, keyset.Enabled, false, want)
				}
			},
			"AddKeyWithOpts": func(rt *rapid.T) {
				p := pick()
				withReq := rapid.Bool().Draw(rt, "withreq")
				id := drawID(rt, "id", p.mod, everSeen)
				k := aesKey(rt, withReq, id)
				// the option list: each option at most once in a drawn order, and in one case out of four
				// one option a second time with another value.  The library applies options in order:
				// WithStatus and WithFixedID overwrite (the last value counts), AsPrimary is idempotent,
				// and EVERY WithFixedID that contradicts the key's own ID requirement is an error,
				// also when a later one agrees (observed on the unchanged library; the model follows it).
				type optSpec struct {
					kind   string
					status keyset.KeyStatus
					id     uint32
				}
				var specs []optSpec
				if rapid.Bool().Draw(rt, "setstatus") {
					specs = append(specs, optSpec{kind: "status", status: rapid.SampledFrom(statuses).Draw(rt, "status")})
				}
				if rapid.IntRange(0, 2).Draw(rt, "fixed") == 0 {
					fid := id
					if rapid.IntRange(0, 3).Draw(rt, "otherfixed") == 0 {
						fid = drawID(rt, "fixedid", p.mod, everSeen)
					}
					specs = append(specs, optSpec{kind: "fixed", id: fid})
				}
				if rapid.IntRange(0, 2).Draw(rt, "asprimary") == 0 {
					specs = append(specs, optSpec{kind: "primary"})
				}
				if len(specs) > 0 && rapid.IntRange(0, 3).Draw(rt, "repeat_option") == 0 {
					switch rapid.SampledFrom([]string{"status", "fixed", "primary"}).Draw(rt, "repeated") {
					case "status":
						specs = append(specs, optSpec{kind: "status", status: rapid.SampledFrom(statuses).Draw(rt, "status2")})
					case "fixed":
						fid := id
						if rapid.Bool().Draw(rt, "otherfixed2") {
							fid = drawID(rt, "fixedid2", p.mod, everSeen)
						}
						specs = append(specs, optSpec{kind: "fixed", id: fid})
					default:
						specs = append(specs, optSpec{kind: "primary"})
					}
					repeatedOpts++
				}
				if len(specs) > 1 {
					specs = rapid.Permutation(specs).Draw(rt, "option_order")
				}
				var opts []keyset.KeyOpts
				var optNames []string
				status, fixed, fixedID, primary, fixedMismatch := keyset.Enabled, false, uint32(0), false, false
				for _, o := range specs {
					switch o.kind {
					case "status":
						opts, status = append(opts, keyset.WithStatus(o.status)), o.status
						optNames = append(optNames, fmt.Sprintf("WithStatus(%v)", o.status))
					case "fixed":
						opts, fixed, fixedID = append(opts, keyset.WithFixedID(o.id)), true, o.id
						fixedMismatch = fixedMismatch || (withReq && o.id != id)
						optNames = append(optNames, fmt.Sprintf("WithFixedID(%d)", o.id))
					default:
						opts, primary = append(opts, keyset.AsPrimary()), true
						optNames = append(optNames, "AsPrimary")
					}
				}
				op := fmt.Sprintf("AddKeyWithOpts(req=%v id=%d opts=[%s])", withReq, id, strings.Join(optNames, " "))
				// model
				expectErr, lenient := fixedMismatch, false
				effFixed, effID := withReq, id
				if fixed {
					effFixed, effID = true, fixedID
				}
				if status == keyset.Unknown || (primary && status != keyset.Enabled) {
					expectErr = true
				}
				if !expectErr && effFixed {
					if p.mod.find(effID) >= 0 {
						expectErr = true
					} else if p.mgr.VerifUnavailableIDs()[effID] {
						lenient = true
					}
				}
				before := p.mgr.VerifSnapshot()
				got, err := p.mgr.AddKeyWithOpts(k, internalapi.Token{}, opts...)
				if after(p, op, before, err, expectErr, lenient) {
					if effFixed && got != effID {
						fail("%s returned id %d", op, got)
					}
					if !effFixed && p.mod.used[got] {
						fail("%s handed out used id %d", op, got)
					}
					if primary {
						promotes++
					}
					learnAppend(p, op, got, status, primary, nil)
				}
			},
			"SetPrimary": func(rt *rapid.T) {
				p := pick()
				id := drawID(rt, "id", p.mod, everSeen)
				i := p.mod.find(id)
				expectErr := i < 0 || p.mod.entries[i].status != keyset.Enabled
				before := p.mgr.VerifSnapshot()
				err := p.mgr.SetPrimary(id)
				if after(p, fmt.Sprintf("SetPrimary(%d)", id), before, err, expectErr, false) {
					for j := range p.mod.entries {
						p.mod.entries[j].primary = j == i
					}
					promotes++
				}
			},
			"Enable": func(rt *rapid.T) {
				p := pick()
				id := drawID(rt, "id", p.mod, everSeen)
				i := p.mod.find(id)
				expectErr := i < 0 || (p.mod.entries[i].status != keyset.Enabled && p.mod.entries[i].status != keyset.Disabled)
				before := p.mgr.VerifSnapshot()
				err := p.mgr.Enable(id)
				if after(p, fmt.Sprintf("Enable(%d)", id), before, err, expectErr, false) {
					p.mod.entries[i].status = keyset.Enabled
				}
			},
			"Disable": func(rt *rapid.T) {
				p := pick()
				id := drawID(rt, "id", p.mod, everSeen)
				i := p.mod.find(id)
				expectErr := i < 0 || p.mod.entries[i].primary || (p.mod.entries[i].status != keyset.Enabled && p.mod.entries[i].status != keyset.Disabled)
				before := p.mgr.VerifSnapshot()
				err := p.mgr.Disable(id)
				if after(p, fmt.Sprintf("Disable(%d)", id), before, err, expectErr, false) {
					p.mod.entries[i].status = keyset.Disabled
				}
			},
			"Delete": func(rt *rapid.T) {
				p := pick()
				id := drawID(rt, "id", p.mod, everSeen)
				i := p.mod.find(id)
				expectErr := i < 0 || p.mod.entries[i].primary
				before := p.mgr.VerifSnapshot()
				err := p.mgr.Delete(id)
				if after(p, fmt.Sprintf("Delete(%d)", id), before, err, expectErr, false) {
					p.mod.entries = append(p.mod.entries[:i:i], p.mod.entries[i+1:]...)
				}
			},
			"Handle": func(rt *rapid.T) {
				p := pick()
				h, err := p.mgr.Handle()
				actionCount["Handle"]++
				log("Handle() -> err=%v", err)
				if (err != nil) != !p.mod.hasPrimary() {
					fail("Handle() error=%v but model primary present=%v (%v)", err, p.mod.hasPrimary(), p.mod)
				}
				if err == nil {
					// not part of the property (it speaks of EARLIER handles): counted only
					if annotEqual(h.Annotations(internalapi.Token{}), p.annot) {
						evid.Add("new_handle_carries_manager_annotations", 1)
					} else {
						evid.Add("new_handle_annotations_differ_from_manager", 1)
					}
				}
				if err == nil && len(handles) < 6 {
					handles = append(handles, savedHandle{h: h, entries: append([]mEntry{}, p.mod.entries...), info: h.KeysetInfo().String(), annot: maps.Clone(h.Annotations(internalapi.Token{}))})
				}
			},
			"SetAnnotations": func(rt *rapid.T) {
				// a later manager operation like any other: handles obtained earlier keep the
				// annotations (and with them the monitoring identity) they were created with
				p := pick()
				var a map[string]string
				switch rapid.IntRange(0, 3).Draw(rt, "annotKind") {
				case 0: // nil: clears
				case 1:
					a = map[string]string{}
				default:
					a = map[string]string{}
					for _, k := range []string{"env", "owner", "zone"} {
						if rapid.Bool().Draw(rt, "has_"+k) {
							a[k] = rapid.SampledFrom([]string{"a", "b", "c"}).Draw(rt, "val_"+k)
						}
					}
				}
				want := maps.Clone(a)
				before := p.mgr.VerifSnapshot()
				err := p.mgr.SetAnnotations(a)
				actionCount["SetAnnotations"]++
				log("SetAnnotations(%v) -> err=%v", want, err)
				if err != nil {
					fail("SetAnnotations(%v): %v", want, err)
				}
				if !snapshotEqual(before, p.mgr.VerifSnapshot()) {
					fail("SetAnnotations(%v) changed the entries", want)
				}
				// the caller keeps using its map ("makes a copy of the annotations map")
				if a != nil {
					a["env"] = "mutated-by-caller"
					a["extra"] = "x"
				}
				p.annot = want
				annotOps++
			},
			"NewManagerFromHandle": func(rt *rapid.T) {
				if len(pairs) >= 3 {
					rt.Skip("enough managers")
				}
				// second handle source: the proto keyset of a manager's current state (written from the
				// MODEL: IDs, statuses, primary; keys serialized one by one, RAW keys keep their keyset ID)
				// read with insecurecleartextkeyset.Read(MemReaderWriter)
				if src := pick(); src.mod.hasPrimary() && rapid.IntRange(0, 2).Draw(rt, "from_proto") == 0 {
					ks := &tinkpb.Keyset{}
					for _, e := range src.mod.entries {
						ser, err := protoserialization.SerializeKey(e.key)
						if err != nil {
							fail("harness: SerializeKey of model entry %d: %v", e.id, err)
						}
						st := map[keyset.KeyStatus]tinkpb.KeyStatusType{keyset.Enabled: tinkpb.KeyStatusType_ENABLED, keyset.Disabled: tinkpb.KeyStatusType_DISABLED, keyset.Destroyed: tinkpb.KeyStatusType_DESTROYED}[e.status]
						ks.Key = append(ks.Key, &tinkpb.Keyset_Key{KeyData: ser.KeyData(), Status: st, KeyId: e.id, OutputPrefixType: ser.OutputPrefixType()})
						if e.primary {
							ks.PrimaryKeyId = e.id
						}
					}
					h, err := insecurecleartextkeyset.Read(&keyset.MemReaderWriter{Keyset: ks})
					if err != nil {
						fail("insecurecleartextkeyset.Read of the proto form of a well-formed manager state %v: %v", src.mod, err)
					}
					m := &model{entries: append([]mEntry{}, src.mod.entries...), used: map[uint32]bool{}}
					for _, e := range m.entries {
						m.used[e.id] = true
					}
					checkHandle(fail, h, m.entries, "", "handle read from the proto form of the model")
					pairs = append(pairs, &pair{mgr: keyset.NewManagerFromHandle(h), mod: m})
					if len(handles) < 6 {
						handles = append(handles, savedHandle{h: h, entries: append([]mEntry{}, m.entries...), info: h.KeysetInfo().String(), annot: maps.Clone(h.Annotations(internalapi.Token{}))})
					}
					actionCount["NewManagerFromHandle(proto)"]++
					log("NewManagerFromHandle(insecurecleartextkeyset.Read(MemReaderWriter{%v}))", m)
					return
				}
				if len(handles) == 0 {
					rt.Skip("no handle yet")
				}
				sh := handles[rapid.IntRange(0, len(handles)-1).Draw(rt, "handle")]
				m := &model{entries: append([]mEntry{}, sh.entries...), used: map[uint32]bool{}}
				for _, e := range m.entries {
					m.used[e.id] = true
				}
				pairs = append(pairs, &pair{mgr: keyset.NewManagerFromHandle(sh.h), mod: m})
				actionCount["NewManagerFromHandle"]++
				log("NewManagerFromHandle(%v)", m)
			},
			"": func(rt *rapid.T) {
				for pi, p := range pairs {
					snap := p.mgr.VerifSnapshot()
					if len(snap) != len(p.mod.entries) {
						fail("manager %d: %d entries, model %d: %s vs %v", pi, len(snap), len(p.mod.entries), snapString(snap), p.mod)
					}
					seen := map[uint32]bool{}
					primaries := 0
					for i, e := range snap {
						me := p.mod.entries[i]
						if e.ID != me.id || e.Status != me.status || e.IsPrimary != me.primary || (me.key != nil && !e.Key.Equal(me.key)) {
							fail("manager %d entry %d: %s differs from model %v", pi, i, snapString(snap), p.mod)
						}
						if seen[e.ID] {
							fail("manager %d: duplicate id %d in %s", pi, e.ID, snapString(snap))
						}
						seen[e.ID] = true
						if e.IsPrimary {
							primaries++
							if e.Status != keyset.Enabled {
								fail("manager %d: primary %d has status %v", pi, e.ID, e.Status)
							}
						}
						if req, has := e.Key.IDRequirement(); has && req != e.ID {
							fail("manager %d: key requiring id %d sits under %d", pi, req, e.ID)
						}
					}
					if primaries > 1 {
						fail("manager %d: %d primaries in %s", pi, primaries, snapString(snap))
					}
					h, err := p.mgr.Handle()
					if (err != nil) != (primaries == 0) {
						fail("manager %d: Handle() err=%v with %d primaries (%s)", pi, err, primaries, snapString(snap))
					}
					if err == nil {
						checkHandle(fail, h, p.mod.entries, "", fmt.Sprintf("manager %d current handle", pi))
					}
				}
				for hi, sh := range handles {
					checkHandle(fail, sh.h, sh.entries, sh.info, fmt.Sprintf("handle #%d obtained earlier", hi))
					if got := sh.h.Annotations(internalapi.Token{}); !annotEqual(got, sh.annot) {
						fail("handle #%d obtained earlier: annotations changed from %v to %v", hi, sh.annot, got)
					}
				}
			},
		})
		nontrivial := failedOps > 0 && afterPromoteChange
		h := evid.NewH()
		for _, s := range history {
			h = h.S(s)
		}
		for a, n := range actionCount {
			evid.Add("action_"+a, int64(n))
		}
		evid.Add("failed_ops", int64(failedOps))
		evid.Add("set_annotations_ops", int64(annotOps))
		evid.Add("addkeywithopts_repeated_option", int64(repeatedOpts))
		evid.Add("steps", int64(len(history)))
		class := fmt.Sprintf("len=%s/failed=%s/managers=%d", bucket(len(history)), bucket(failedOps), len(pairs))
		evid.Case(class, nontrivial, h.Sum(), func() any { return history })
	})
}

func bucket(n int) string {
	switch {
	case n == 0:
		return "0"
	case n <= 3:
		return "1-3"
	case n <= 10:
		return "4-10"
	case n <= 30:
		return "11-30"
	}
	return ">30"
}

func checkHandle(fail func(string, ...any), h *keyset.Handle, want []mEntry, info string, what string) {
	if h.Len() != len(want) {
		fail("%s: %d entries, expected %d", what, h.Len(), len(want))
	}
	primaries := 0
	for i := 0; i < h.Len(); i++ {
		e, err := h.Entry(i)
		if err != nil {
			fail("%s: Entry(%d): %v", what, i, err)
		}
		w := want[i]
		if e.KeyID() != w.id || e.KeyStatus() != w.status || e.IsPrimary() != w.primary || (w.key != nil && !e.Key().Equal(w.key)) {
			fail("%s: entry %d is (%d %v primary=%v), expected (%d %v primary=%v)", what, i, e.KeyID(), e.KeyStatus(), e.IsPrimary(), w.id, w.status, w.primary)
		}
		if e.IsPrimary() {
			primaries++
		}
	}
	if primaries != 1 {
		fail("%s: %d primaries", what, primaries)
	}
	pe, err := h.Primary()
	if err != nil || pe.KeyStatus() != keyset.Enabled || !pe.IsPrimary() {
		fail("%s: Primary() = %v, %v", what, pe, err)
	}
	if info != "" && h.KeysetInfo().String() != info {
		fail("%s: KeysetInfo changed from %s to %s", what, info, h.KeysetInfo().String())
	}
}

// TestKnownPrimaryLoss reproduces finding F2 directly when it is listed (and not fixed).
func TestKnownPrimaryLoss(t *testing.T) {
	m := keyset.NewManager()
	p := tk.Must(aesgcm.NewParameters(aesgcm.ParametersOpts{KeySizeInBytes: 16, IVSizeInBytes: 12, TagSizeInBytes: 16, Variant: aesgcm.VariantTink}))
	k1 := tk.Must(aesgcm.NewKey(tk.Secret(make([]byte, 16)), 7, p))
	id := tk.Must(m.AddKey(k1))
	if err := m.SetPrimary(id); err != nil {
		t.Fatal(err)
	}
	k2 := tk.Must(aesgcm.NewKey(tk.Secret(make([]byte, 16)), 7, p))
	if _, err := m.AddKeyWithOpts(k2, internalapi.Token{}, keyset.AsPrimary()); err == nil {
		t.Fatal("colliding id accepted")
	}
	_, err := m.Handle()
	evid.Case("F2-repro", true, 1, func() any { return "AddKey(id 7); SetPrimary(7); AddKeyWithOpts(id 7, AsPrimary) -> error; Handle()" })
	if err != nil {
		if kf.Listed(propID, "manager:addkeywithopts-asprimary-collision-clears-primary") {
			kf.Report(propID, "manager:addkeywithopts-asprimary-collision-clears-primary")
			return
		}
		t.Fatalf("failed AddKeyWithOpts(AsPrimary) with colliding id left the keyset without primary: %v", err)
	}
}
