package c09

import (
	"fmt"
	"strings"
	"testing"
	"time"

	"pgregory.net/rapid"

	"github.com/tink-crypto/tink-go/v2/jwt"
	"github.com/tink-crypto/tink-go/v2/verifharness/internal/detrand"
	"github.com/tink-crypto/tink-go/v2/verifharness/internal/evid"
	"github.com/tink-crypto/tink-go/v2/verifharness/internal/gen"
	"github.com/tink-crypto/tink-go/v2/verifharness/internal/ref/jwtref"
	"github.com/tink-crypto/tink-go/v2/verifharness/internal/ref/sigref"
)

var allSkews = []time.Duration{0, 0, time.Second, time.Second, 59 * time.Second, 10 * time.Minute, 10 * time.Minute, 1, 500 * time.Millisecond, 10*time.Minute - 1}

// drawTimeClaim draws an integral NumericDate relative to the two bounds now-skew and now+skew,
// or a far / out-of-range value. kind names the placement.
func drawTimeClaim(rt *rapid.T, label string, now time.Time, skew time.Duration) (sec int64, kind string) {
	lo := now.Unix() - int64(skew/time.Second) // second that holds now-skew (up to the sub-second parts)
	hi := now.Unix() + int64(skew/time.Second)
	kind = rapid.SampledFrom([]string{"lo-2", "lo-1", "lo", "lo+1", "lo+2", "now-1", "now", "now+1", "hi-2", "hi-1", "hi", "hi+1", "hi+2", "zero", "one", "max", "max-1", "max+1", "minus-one", "far-past", "far-future", "any"}).Draw(rt, label+"_placement")
	switch kind {
	case "lo-2", "lo-1", "lo", "lo+1", "lo+2":
		sec = lo + map[string]int64{"lo-2": -2, "lo-1": -1, "lo": 0, "lo+1": 1, "lo+2": 2}[kind]
	case "hi-2", "hi-1", "hi", "hi+1", "hi+2":
		sec = hi + map[string]int64{"hi-2": -2, "hi-1": -1, "hi": 0, "hi+1": 1, "hi+2": 2}[kind]
	case "now-1":
		sec = now.Unix() - 1
	case "now":
		sec = now.Unix()
	case "now+1":
		sec = now.Unix() + 1
	case "zero":
		sec = 0
	case "one":
		sec = 1
	case "max":
		sec = jwtref.TimestampMax
	case "max-1":
		sec = jwtref.TimestampMax - 1
	case "max+1":
		sec = jwtref.TimestampMax + 1
	case "minus-one":
		sec = -1
	case "far-past":
		sec = now.Unix() - 86400*365
	case "far-future":
		sec = now.Unix() + 86400*365
	default:
		sec = rapid.Int64Range(-1000, jwtref.TimestampMax+1000).Draw(rt, label+"_any")
	}
	return sec, kind
}

// drawExpectation draws the validator side of one of typ / iss / aud.
func drawExpectation(rt *rapid.T, label string, values []string) (expected *string, ignore bool, kind string) {
	switch rapid.IntRange(0, 3).Draw(rt, label+"_validator") {
	case 0:
		return nil, false, "none"
	case 1:
		return nil, true, "ignore"
	default:
		return sptr(rapid.SampledFrom(values).Draw(rt, label+"_expected")), false, "expected"
	}
}

var fieldValues = []string{"A", "B", "", "a", "A ", "\U0001F600"}

// TestValidatorDecision: every validator option combination against tokens (signed by the
// reference signer) whose time claims sit on and around the two bounds and whose typ / iss / aud are
// absent, matching or different. Tink's decision must equal the reference decision.
func TestValidatorDecision(t *testing.T) {
	check(t, func(rt *rapid.T) {
		detrand.Seed(rapid.Uint64().Draw(rt, "entropy"))
		k := drawKey(rt, "key", famAny)
		p := single(rt, k)
		skew := rapid.SampledFrom(allSkews).Draw(rt, "skew")
		now := drawNow(rt, 1)
		v := jwtref.Validator{Now: now, Skew: skew}
		var kinds []string
		// Independent draws of every dimension almost always reject on the first rule. So one
		// dimension (or two, or all) is drawn freely and the others are drawn from the values that
		// satisfy their rule (edges included): the free dimension then decides.
		focus := rapid.SampledFrom([]string{"exp", "exp", "nbf", "iat", "typ", "iss", "aud", "none", "all", "two"}).Draw(rt, "focus")
		second := ""
		if focus == "two" {
			focus = rapid.SampledFrom([]string{"exp", "nbf", "iat", "typ", "iss", "aud"}).Draw(rt, "focus1")
			second = rapid.SampledFrom([]string{"exp", "nbf", "iat", "typ", "iss", "aud"}).Draw(rt, "focus2")
		}
		free := func(dim string) bool { return focus == "all" || focus == dim || second == dim }
		kinds = append(kinds, "focus="+focus)

		var typ *string
		var payload []member
		// typ, iss, aud: validator side and token side
		field := func(dim string) (expected *string, ignore bool, tokenValue *string) {
			var ek string
			if free(dim) {
				expected, ignore, ek = drawExpectation(rt, dim, fieldValues)
				if rapid.Bool().Draw(rt, "has_"+dim) {
					tokenValue = sptr(rapid.SampledFrom(fieldValues).Draw(rt, dim))
				}
				kinds = append(kinds, "v"+dim+"="+ek)
				return
			}
			switch rapid.IntRange(0, 3).Draw(rt, dim+"_consistent") {
			case 0: // absent, nothing expected
				ek = "none"
			case 1: // ignored, present or not
				ignore, ek = true, "ignore"
				if rapid.Bool().Draw(rt, "has_"+dim) {
					tokenValue = sptr(rapid.SampledFrom(fieldValues).Draw(rt, dim))
				}
			default: // expected and equal
				val := rapid.SampledFrom(fieldValues).Draw(rt, dim)
				expected, tokenValue, ek = sptr(val), sptr(val), "expected"
			}
			kinds = append(kinds, "v"+dim+"="+ek)
			return
		}
		v.ExpectedTyp, v.IgnoreTyp, typ = field("typ")
		var issValue, audValue *string
		v.ExpectedIss, v.IgnoreIss, issValue = field("iss")
		v.ExpectedAud, v.IgnoreAud, audValue = field("aud")
		if issValue != nil {
			payload = append(payload, member{"iss", jstr(*issValue)})
		}
		if audValue != nil {
			// the drawn value is one element; the shape and the other elements are drawn on top
			switch shape := rapid.SampledFrom([]string{"string", "list1", "list2", "list3"}).Draw(rt, "aud_shape"); shape {
			case "string":
				payload = append(payload, member{"aud", jstr(*audValue)})
			default:
				n := int(shape[4] - '0')
				at := rapid.IntRange(0, n-1).Draw(rt, "aud_at")
				var l []any
				for i := 0; i < n; i++ {
					if i == at {
						l = append(l, *audValue)
					} else {
						l = append(l, rapid.SampledFrom(fieldValues).Draw(rt, fmt.Sprintf("aud[%d]", i)))
					}
				}
				payload = append(payload, member{"aud", jtext(l)})
			}
		}
		// time claims
		if free("exp") {
			v.AllowMissingExpiration = rapid.Bool().Draw(rt, "allow_missing_exp")
		}
		if free("iat") {
			v.ExpectIssuedInThePast = rapid.Bool().Draw(rt, "expect_issued_in_the_past")
		} else {
			v.ExpectIssuedInThePast = rapid.IntRange(0, 2).Draw(rt, "expect_issued_in_the_past_consistent") == 0
		}
		lo := now.Unix() - int64(skew/time.Second)
		hi := now.Unix() + int64(skew/time.Second)
		nonneg := func(x int64) int64 {
			if x < 0 {
				return 0
			}
			return x
		}
		boundary := false
		for _, name := range []string{"exp", "nbf", "iat"} {
			var sec int64
			var kind string
			switch {
			case free(name) || (name == "iat" && !v.ExpectIssuedInThePast):
				if rapid.IntRange(0, 3).Draw(rt, "has_"+name) == 0 {
					kinds = append(kinds, name+"=absent")
					continue
				}
				sec, kind = drawTimeClaim(rt, name, now, skew)
			case name == "exp":
				// satisfied: exp > now-skew holds from second lo+1 on whatever the sub-second parts are
				kind = rapid.SampledFrom([]string{"absent-allowed", "ok-lo+1", "ok-lo+1", "ok-lo+2", "ok-now+1", "ok-hi+1", "ok-max", "ok-far-future"}).Draw(rt, "exp_ok")
				if kind == "absent-allowed" {
					v.AllowMissingExpiration = true
					kinds = append(kinds, "exp="+kind)
					continue
				}
				v.AllowMissingExpiration = rapid.Bool().Draw(rt, "allow_missing_exp")
				sec = map[string]int64{"ok-lo+1": nonneg(lo + 1), "ok-lo+2": nonneg(lo + 2), "ok-now+1": now.Unix() + 1, "ok-hi+1": hi + 1, "ok-max": jwtref.TimestampMax, "ok-far-future": now.Unix() + 86400*365}[kind]
				if sec > jwtref.TimestampMax {
					sec = jwtref.TimestampMax
				}
			default:
				// satisfied: nbf / iat <= now+skew holds up to second hi whatever the sub-second parts are
				kind = rapid.SampledFrom([]string{"absent", "ok-hi", "ok-hi", "ok-hi-1", "ok-now", "ok-lo", "ok-zero", "ok-far-past"}).Draw(rt, name+"_ok")
				if kind == "absent" {
					if name == "iat" { // ExpectIssuedInThePast needs an iat to be satisfied
						kind = "ok-hi"
					} else {
						kinds = append(kinds, name+"=absent")
						continue
					}
				}
				sec = nonneg(map[string]int64{"ok-hi": hi, "ok-hi-1": hi - 1, "ok-now": now.Unix(), "ok-lo": lo, "ok-zero": 0, "ok-far-past": now.Unix() - 86400*365}[kind])
			}
			kinds = append(kinds, name+"="+kind)
			if strings.Contains(kind, "lo") || strings.Contains(kind, "hi") || strings.Contains(kind, "now") {
				boundary = true
			}
			// One claim in five carries a fraction of a second (RFC 7519: a NumericDate may be a non-integer).
			// Away from the bounds every rounding gives the same answer and the decision is binding; at a
			// bound the floor and the ceiling disagree and the reference says so (robustness oracle).
			text := fmt.Sprint(sec)
			if gen.OneIn(rt, name+"_has_fraction", 5) {
				text += gen.Pick(rt, name+"_fraction", []string{".5", ".25", ".75", ".125"})
				evid.Add("validator_fractional_"+name, 1)
			}
			payload = append(payload, member{name, text})
		}
		if rapid.Bool().Draw(rt, "has_sub") {
			payload = append(payload, member{"sub", jstr(drawString(rt, "sub"))})
		}
		if rapid.Bool().Draw(rt, "has_custom") {
			// one in four with numbers in exponent form / beyond 2^53: the decision stays binding, only the
			// comparison of this claim's returned value is loosened
			if gen.OneIn(rt, "custom_any_number", 4) {
				payload = append(payload, member{drawClaimName(rt, "custom_name"), jtext(drawValue(rt, "custom", 1))})
			} else {
				payload = append(payload, member{drawClaimName(rt, "custom_name"), jtext(drawTameValue(rt, "custom", 1))})
			}
		}
		// member order is arbitrary: rotate
		if len(payload) > 1 {
			r := rapid.IntRange(0, len(payload)-1).Draw(rt, "rotate")
			payload = append(payload[r:], payload[:r]...)
		}
		names := map[string]bool{}
		for _, m := range payload {
			if names[m.name] {
				rt.Skip("duplicate custom claim name") // cannot happen: drawClaimName avoids registered names
			}
			names[m.name] = true
		}
		header, body := object(goodHeader(k, typ)), object(payload)
		token := makeToken(rt, k, k.alg, header, body)
		ctx := fmt.Sprintf("validator decision: header=%s payload=%s", header, body)
		tv := tinkValidator(rt, v, rapid.IntRange(0, 9).Draw(rt, "deprecated_aud_field") == 0)
		o := decide(rt, ctx, p, token, v, tv)

		nontrivial := boundary || v.ExpectedTyp != nil || v.ExpectedIss != nil || v.ExpectedAud != nil || typ != nil || names["iss"] || names["aud"] || k.strategy != stIgnored
		class := fmt.Sprintf("validator/%s/%s/accept=%v/strict=%v/%s", reasonClass(o.d), k.fam, o.d.Accept, o.strict, k.strategy)
		fp := evid.NewH().S(k.String()).S(header).S(body).S(vdesc(v)).Sum()
		evid.Case(class, nontrivial, fp, func() any {
			return map[string]any{"key": k.String(), "header": header, "payload": body, "validator": vdesc(v), "placement": strings.Join(kinds, " "), "reference": o.d.Reason, "silent": o.d.Silent}
		})
		evid.Add("validator_"+strings.Join(kinds[:4], "_"), 1)
	})
}

// TestValidatorConstruction: NewValidator errors iff the clock skew is above 10 minutes (the
// expectation / ignore conflicts are out of the property's scope: error or not, no panic).
func TestValidatorConstruction(t *testing.T) {
	check(t, func(rt *rapid.T) {
		detrand.Seed(rapid.Uint64().Draw(rt, "entropy"))
		skew := rapid.SampledFrom([]time.Duration{0, 1, time.Second, 10*time.Minute - 1, 10 * time.Minute, 10*time.Minute + 1, 10*time.Minute + time.Second, 11 * time.Minute, time.Hour, 1<<63 - 1,
			time.Duration(rapid.Int64Range(0, int64(20*time.Minute)).Draw(rt, "skew_any"))}).Draw(rt, "skew")
		opts := &jwt.ValidatorOpts{ClockSkew: skew, FixedNow: drawNow(rt, 1),
			AllowMissingExpiration: rapid.Bool().Draw(rt, "allow"), ExpectIssuedInThePast: rapid.Bool().Draw(rt, "iat"),
			IgnoreTypeHeader: rapid.Bool().Draw(rt, "ityp"), IgnoreIssuer: rapid.Bool().Draw(rt, "iiss"), IgnoreAudiences: rapid.Bool().Draw(rt, "iaud")}
		if !opts.IgnoreTypeHeader && rapid.Bool().Draw(rt, "etyp") {
			opts.ExpectedTypeHeader = sptr("JWT")
		}
		if !opts.IgnoreIssuer && rapid.Bool().Draw(rt, "eiss") {
			opts.ExpectedIssuer = sptr("i")
		}
		if !opts.IgnoreAudiences && rapid.Bool().Draw(rt, "eaud") {
			opts.ExpectedAudience = sptr("a")
		}
		ref := jwtref.Validator{Skew: skew}
		val, err := jwt.NewValidator(opts)
		if (ref.Valid() == nil) != (err == nil) {
			rt.Fatalf("NewValidator with ClockSkew=%v (%d ns): err=%v, the property says %v", skew, int64(skew), err, ref.Valid())
		}
		if err == nil && val == nil {
			rt.Fatalf("nil validator without error")
		}
		evid.Case(fmt.Sprintf("newvalidator/ok=%v", err == nil), skew >= 9*time.Minute && skew <= 11*time.Minute, evid.NewH().I(int64(skew)).Sum(), func() any {
			return map[string]any{"skew_ns": int64(skew), "ok": err == nil}
		})
	})
}

// ---------------------------------------------------------------------------------------------
// Header, structure, encoding and payload manipulations.

type manip struct {
	kind  string
	token string
	note  string
}

// nonStringJSON are JSON values that are not strings.
var nonStringJSON = []string{"1", "null", "true", "[]", `["x"]`, "{}", `{"a":"b"}`, "0.5"}

// replaceMember returns ms with member name replaced (or appended) by raw; raw "" deletes it.
func replaceMember(ms []member, name, raw string) []member {
	var out []member
	done := false
	for _, m := range ms {
		if m.name == name {
			if raw != "" && !done {
				out = append(out, member{name, raw})
			}
			done = true
			continue
		}
		out = append(out, m)
	}
	if !done && raw != "" {
		out = append(out, member{name, raw})
	}
	return out
}

// otherAlg returns an algorithm name of the same family that differs from alg.
func otherAlg(rt *rapid.T, k *jkey) string {
	var c []string
	for _, a := range algsByFamily[k.fam] {
		if a != k.alg {
			c = append(c, a)
		}
	}
	return rapid.SampledFrom(c).Draw(rt, "other_alg")
}

// publicBytes returns byte strings an attacker knows and could try as an HMAC key.
func publicBytes(rt *rapid.T, k *jkey) []byte {
	switch k.fam {
	case "ES":
		return k.ecPoint
	case "RS", "PS":
		return k.mat.RSA.N.Bytes()
	case "ML-DSA":
		return k.mat.MLDSAPublic
	}
	return []byte("public")
}

// mangleLast sets the given unused low bits of the last character: another (non-canonical) encoding
// of the same bytes. len(s)%4 must be 2 (4 unused bits) or 3 (2 unused bits) and s canonical.
func mangleLast(s string, bits int) string {
	const alphabet = "ABCDEFGHIJKLMNOPQRSTUVWXYZabcdefghijklmnopqrstuvwxyz0123456789-_"
	i := strings.IndexByte(alphabet, s[len(s)-1])
	if len(s)%4 < 2 || i < 0 || i&bits != 0 || bits <= 0 || bits >= 1<<map[int]int{2: 4, 3: 2}[len(s)%4] {
		panic(fmt.Sprintf("c09: mangleLast(%q, %d)", s, bits))
	}
	return s[:len(s)-1] + string(alphabet[i|bits])
}

// drawManipulation builds one manipulated token for key k. base claims make the untouched token
// acceptable to v.
func drawManipulation(rt *rapid.T, k *jkey, typ *string, payload []member) manip {
	hdr := goodHeader(k, typ)
	h, b := object(hdr), object(payload)
	h64, p64 := jwtref.B64Encode([]byte(h)), jwtref.B64Encode([]byte(b))
	withHeader := func(kind string, ms []member) manip {
		return manip{kind: kind, token: makeToken(rt, k, k.alg, object(ms), b), note: object(ms)}
	}
	withHeaderText := func(kind, text string) manip {
		return manip{kind: kind, token: makeToken(rt, k, k.alg, text, b), note: text}
	}
	withPayloadText := func(kind, text string) manip {
		return manip{kind: kind, token: makeToken(rt, k, k.alg, h, text), note: text}
	}
	kinds := []string{
		"untouched",
		"alg-none", "alg-none-unsigned", "alg-sibling", "alg-sibling-resigned", "alg-cross-family", "alg-hmac-with-public-key", "alg-case", "alg-space", "alg-not-string", "alg-missing", "alg-empty",
		"kid-absent", "kid-wrong", "kid-not-string", "kid-other-strategy", "kid-case", "kid-padded", "kid-extended", "kid-added-arbitrary",
		"crit", "typ-not-string", "typ-added", "extra-members", "header-whitespace", "header-member-order", "header-not-object", "header-duplicate", "header-escaped-names",
		"dots", "b64-padding", "b64-std-alphabet", "b64-whitespace", "b64-non-ascii", "b64-length1", "b64-trailing-bits",
		"payload-not-object", "payload-claim-type", "payload-whitespace", "payload-duplicate", "payload-surrogate", "payload-big-number", "payload-fractional-time", "payload-exponent-time", "payload-deep", "payload-invalid-utf8", "payload-escaped-names",
	}
	// Every kind offered changes the token of THIS case (a kind that would leave it as it is - no kid
	// to remove, a one-member header to reorder - is not in the list), and the choice is equal-weight.
	kid, hasKid := k.kid()
	inPayload := func(name string) bool {
		for _, m := range payload {
			if m.name == name {
				return true
			}
		}
		return false
	}
	var escapable []string
	for _, n := range []string{"exp", "iss", "aud", "nbf", "iat", "custom"} {
		if inPayload(n) {
			escapable = append(escapable, n)
		}
	}
	var offered []string
	for _, c := range kinds {
		ok := true
		switch c {
		case "alg-sibling-resigned":
			ok = k.fam != "ML-DSA" // an ML-DSA private key cannot sign under another parameter set
		case "kid-absent", "kid-wrong", "kid-padded", "kid-extended":
			ok = hasKid
		case "kid-case":
			ok = hasKid && swapCase(kid) != kid
		case "header-member-order":
			ok = len(hdr) > 1
		case "payload-escaped-names":
			ok = len(escapable) > 0
		}
		if ok {
			offered = append(offered, c)
		}
	}
	if k.fam == "PS" {
		offered = append(offered, "ps-other-salt", "ps-other-salt", "ps-other-salt", "ps-other-salt", "ps-other-salt")
	}
	kind := gen.Pick(rt, "manipulation", offered)
	evid.Add("manip/"+kind, 1)
	switch kind {
	case "ps-other-salt":
		// A well-formed RSASSA-PSS signature by the key itself over the untouched header and payload,
		// but with a salt length other than the hash length RFC 7518 section 3.5 prescribes for PS*
		// (0, 20, one off, the longest that fits). The key's algorithm is documented by reference to
		// that section (jwtrsassapss.Algorithm: "See RFC 7518 section 3.5", which says "The size of the
		// salt value is the same size as the hash function output"), so this is not a valid signature
		// of a PSxxx key, and "signature valid under the key" is the first conjunct of the property.
		hashName := "SHA" + k.alg[2:]
		hLen := map[string]int{"SHA256": 32, "SHA384": 48, "SHA512": 64}[hashName]
		r := k.mat.RSA
		maxSalt := (r.N.BitLen()-1+7)/8 - hLen - 2
		sLen := rapid.SampledFrom([]int{0, 0, 20, hLen - 1, hLen + 1, maxSalt, maxSalt}).Draw(rt, "ps_salt_len")
		unsigned := h64 + "." + p64
		em := sigref.PSSEncode(hashName, []byte(unsigned), gen.BytesN(rt, "ps_salt", sLen), r.N.BitLen())
		sig := sigref.RSASP1(sigref.RSAPrivate{RSAPublic: sigref.RSAPublic{N: r.N, E: r.E}, D: r.D, P: r.Primes[0], Q: r.Primes[1]}, em)
		if em == nil || sig == nil || sLen == hLen || !sigref.VerifyPSS(sigref.RSAPublic{N: r.N, E: r.E}, hashName, sLen, []byte(unsigned), sig) {
			rt.Fatalf("harness: could not build a PSS signature with salt length %d for %v", sLen, k)
		}
		return manip{kind: kind, token: unsigned + "." + jwtref.B64Encode(sig), note: fmt.Sprintf("%s with salt length %d instead of %d", k.alg, sLen, hLen)}
	case "untouched":
		return manip{kind: "untouched", token: makeToken(rt, k, k.alg, h, b), note: h}
	case "alg-none":
		return withHeader(kind, replaceMember(hdr, "alg", jstr(rapid.SampledFrom([]string{"none", "None", "NONE", "nOnE"}).Draw(rt, "none"))))
	case "alg-none-unsigned":
		text := object(replaceMember(hdr, "alg", `"none"`))
		return manip{kind: kind, token: jwtref.B64Encode([]byte(text)) + "." + p64 + ".", note: text}
	case "alg-sibling": // header names another algorithm of the family, signature made with the key's own
		return withHeader(kind, replaceMember(hdr, "alg", jstr(otherAlg(rt, k))))
	case "alg-sibling-resigned": // ... and the signature is made with that other algorithm over the same material
		oa := otherAlg(rt, k)
		text := object(replaceMember(hdr, "alg", jstr(oa)))
		return manip{kind: kind, token: makeToken(rt, k, oa, text, b), note: text}
	case "alg-cross-family":
		var oa string
		switch k.fam {
		case "RS":
			oa = "PS" + k.alg[2:]
		case "PS":
			oa = "RS" + k.alg[2:]
		case "HS":
			oa = rapid.SampledFrom([]string{"ES256", "RS256", "PS256", "ML-DSA-44"}).Draw(rt, "cross_alg")
		default:
			oa = rapid.SampledFrom([]string{"HS256", "RS256", "EdDSA", "ES256K"}).Draw(rt, "cross_alg")
		}
		text := object(replaceMember(hdr, "alg", jstr(oa)))
		if (k.fam == "RS" || k.fam == "PS") && rapid.Bool().Draw(rt, "cross_resign") {
			return manip{kind: kind + "-resigned", token: makeToken(rt, k, oa, text, b), note: text}
		}
		return withHeaderText(kind, text)
	case "alg-hmac-with-public-key":
		// the classic confusion: header says HS*, the MAC is keyed with public information
		oa := rapid.SampledFrom([]string{"HS256", "HS384", "HS512"}).Draw(rt, "hs_alg")
		text := object(replaceMember(hdr, "alg", jstr(oa)))
		unsigned := jwtref.B64Encode([]byte(text)) + "." + p64
		return manip{kind: kind, token: unsigned + "." + jwtref.B64Encode(jwtref.HMACTag(oa, publicBytes(rt, k), []byte(unsigned))), note: text}
	case "alg-case":
		return withHeader(kind, replaceMember(hdr, "alg", jstr(rapid.SampledFrom([]string{strings.ToLower(k.alg), strings.ToUpper(k.alg[:1]) + strings.ToLower(k.alg[1:])}).Draw(rt, "alg_case"))))
	case "alg-space":
		return withHeader(kind, replaceMember(hdr, "alg", jstr(rapid.SampledFrom([]string{k.alg + " ", " " + k.alg, k.alg + "\u0000", k.alg + "\n"}).Draw(rt, "alg_space"))))
	case "alg-not-string":
		return withHeader(kind, replaceMember(hdr, "alg", rapid.SampledFrom(append([]string{"[" + jstr(k.alg) + "]", `{"alg":` + jstr(k.alg) + `}`}, nonStringJSON...)).Draw(rt, "alg_value")))
	case "alg-missing":
		return withHeader(kind, replaceMember(hdr, "alg", ""))
	case "alg-empty":
		return withHeader(kind, replaceMember(hdr, "alg", `""`))
	case "kid-absent":
		return withHeader(kind, replaceMember(hdr, "kid", ""))
	case "kid-wrong":
		wrong := rapid.SampledFrom([]string{kid + "x", "", "AAAAAA", jwtref.KeyIDKid(k.id + 1), jwtref.KeyIDKid(k.id ^ 0x80000000), drawString(rt, "wrong_kid")}).Draw(rt, "wrong_kid_pick")
		if wrong == kid {
			wrong += "_"
		}
		return withHeader(kind, replaceMember(hdr, "kid", jstr(wrong)))
	case "kid-not-string":
		return withHeader(kind, replaceMember(hdr, "kid", rapid.SampledFrom(nonStringJSON).Draw(rt, "kid_value")))
	case "kid-other-strategy":
		// a key-ID style kid for a custom-kid key and vice versa
		var other string
		switch k.strategy {
		case stTink:
			other = drawCustomKID(rt, "other_kid")
		default:
			other = jwtref.KeyIDKid(rapid.Uint32().Draw(rt, "other_id"))
		}
		return withHeader(kind, replaceMember(hdr, "kid", jstr(other)))
	case "kid-case":
		return withHeader(kind, replaceMember(hdr, "kid", jstr(swapCase(kid))))
	case "kid-padded":
		return withHeader(kind, replaceMember(hdr, "kid", jstr(kid+rapid.SampledFrom([]string{"==", "=", " ", "\n"}).Draw(rt, "kid_pad"))))
	case "kid-extended":
		return withHeader(kind, replaceMember(hdr, "kid", jstr(rapid.SampledFrom([]string{kid + "A", "A" + kid, kid + kid}).Draw(rt, "kid_ext"))))
	case "kid-added-arbitrary":
		return withHeader(kind, replaceMember(hdr, "kid", jstr(drawString(rt, "arbitrary_kid"))))
	case "crit":
		return withHeader(kind, append(append([]member{}, hdr...), member{"crit", rapid.SampledFrom([]string{`["exp"]`, "[]", "null", `"x"`, "true", "{}", "0", `["b64"]`, `""`}).Draw(rt, "crit_value")}))
	case "typ-not-string":
		return withHeader(kind, replaceMember(hdr, "typ", rapid.SampledFrom(nonStringJSON).Draw(rt, "typ_value")))
	case "typ-added":
		return withHeader(kind, replaceMember(hdr, "typ", jstr(drawString(rt, "typ_other"))))
	case "extra-members":
		ms := append([]member{}, hdr...)
		n := rapid.IntRange(1, 3).Draw(rt, "extra_n")
		for i := 0; i < n; i++ {
			e := rapid.SampledFrom([]member{{"cty", `"JWT"`}, {"jku", `"https://example.com/jwks"`}, {"x5c", `["MIIB"]`}, {"jwk", `{"kty":"oct","k":"AAAA"}`}, {"b64", "false"}, {"foo", `{"alg":"none","crit":["x"]}`}, {"Alg", `"none"`}, {"CRIT", `["x"]`}, {"Kid", `"x"`}, {"", `null`}, {"x5t", "1"}, {"nested", `[[[{"a":null}]]]`}}).Draw(rt, fmt.Sprintf("extra%d", i))
			ms = replaceMember(ms, e.name, e.raw)
		}
		if rapid.Bool().Draw(rt, "extra_first") {
			ms = append(ms[len(hdr):], ms[:len(hdr)]...)
		}
		return withHeader(kind, ms)
	case "header-whitespace":
		ws := rapid.SampledFrom([]string{" ", "\n", "\r\n", "\t", "  \n "}).Draw(rt, "ws")
		text := ws + strings.ReplaceAll(strings.ReplaceAll(h, `":`, `"`+ws+`:`+ws), `,"`, ws+`,`+ws+`"`) + ws
		return withHeaderText(kind, text)
	case "header-member-order":
		ms := append([]member{}, hdr...)
		for i, j := 0, len(ms)-1; i < j; i, j = i+1, j-1 {
			ms[i], ms[j] = ms[j], ms[i]
		}
		return withHeader(kind, ms)
	case "header-not-object":
		return withHeaderText(kind, gen.Pick(rt, "header_text", []string{"[]", `"x"`, "null", "1", "true", "", " ", "[" + h + "]", h + h, h + ",", h[:len(h)-1], "{" + h + "}", "\ufeff" + h, "{}", `{"alg":}`}))
	case "header-duplicate":
		ms := append([]member{}, hdr...)
		dup := rapid.SampledFrom([]member{{"alg", `"none"`}, {"alg", jstr(k.alg)}, {"kid", `"x"`}, {"typ", `"x"`}, {"crit", `["x"]`}, {"foo", "1"}}).Draw(rt, "dup")
		if rapid.Bool().Draw(rt, "dup_first") {
			ms = append([]member{dup}, ms...)
		} else {
			ms = append(ms, dup)
		}
		if dup.name == "crit" || dup.name == "foo" {
			ms = append(ms, dup)
		}
		return withHeader(kind, ms)
	case "header-escaped-names":
		// "\u0061lg" is the member name "alg"; the values may be written with escapes as well
		text := h
		text = strings.Replace(text, `"alg"`, rapid.SampledFrom([]string{`"\u0061lg"`, `"al\u0067"`, `"\u0061\u006c\u0067"`, `"\u0061\u006C\u0067"`}).Draw(rt, "esc_alg"), 1)
		if rapid.Bool().Draw(rt, "esc_value") {
			text = strings.Replace(text, jstr(k.alg), `"`+`\u00`+fmt.Sprintf("%02x", k.alg[0])+k.alg[1:]+`"`, 1)
		}
		if rapid.Bool().Draw(rt, "esc_kid") {
			text = strings.Replace(text, `"kid"`, `"\u006bid"`, 1)
		}
		if rapid.Bool().Draw(rt, "esc_crit") {
			text = text[:len(text)-1] + `,"\u0063rit":["x"]}`
		}
		return withHeaderText(kind, text)
	case "dots":
		good := makeToken(rt, k, k.alg, h, b)
		parts := strings.Split(good, ".")
		c := gen.Pick(rt, "dots_kind", []string{"trailing-dot", "leading-dot", "double-dot-1", "double-dot-2", "extra-part", "two-parts", "one-part", "empty", "empty-signature", "empty-header", "empty-payload", "only-dots", "four-dots", "header-twice"})
		var tok string
		switch c {
		case "trailing-dot":
			tok = good + "."
		case "leading-dot":
			tok = "." + good
		case "double-dot-1":
			tok = parts[0] + ".." + parts[1] + "." + parts[2]
		case "double-dot-2":
			tok = parts[0] + "." + parts[1] + ".." + parts[2]
		case "extra-part":
			tok = good + "." + parts[2]
		case "two-parts":
			tok = parts[0] + "." + parts[1]
		case "one-part":
			tok = parts[0]
		case "empty":
			tok = ""
		case "empty-signature":
			tok = parts[0] + "." + parts[1] + "."
		case "empty-header":
			tok = signParts(rt, k, k.alg, "", p64)
		case "empty-payload":
			tok = signParts(rt, k, k.alg, h64, "")
		case "only-dots":
			tok = ".."
		case "four-dots":
			tok = "...."
		case "header-twice":
			// signature over "h.h.p": a verifier that splits at the last dot only would verify it
			tok = signParts(rt, k, k.alg, h64+"."+h64, p64)
		}
		return manip{kind: kind + "/" + c, token: tok}
	case "b64-padding", "b64-std-alphabet", "b64-whitespace", "b64-non-ascii", "b64-length1", "b64-trailing-bits":
		// header and payload texts whose encodings need padding / contain '-' or '_' can be chosen freely:
		// pad the JSON with spaces until the encoding has the wanted shape.
		hs, ps := h, b
		enc := func(s string) string { return jwtref.B64Encode([]byte(s)) }
		alter := func(s string) string {
			switch kind {
			case "b64-padding":
				if len(s)%4 == 0 {
					return s + rapid.SampledFrom([]string{"=", "==", "===="}).Draw(rt, "pad_extra")
				}
				return s + strings.Repeat("=", 4-len(s)%4)
			case "b64-std-alphabet":
				return strings.NewReplacer("-", "+", "_", "/").Replace(s)
			case "b64-whitespace":
				ws := rapid.SampledFrom([]string{" ", "\n", "\r\n", "\t", "\r", " ", " "}).Draw(rt, "b64_ws")
				at := rapid.SampledFrom([]int{0, len(s) / 2, len(s)}).Draw(rt, "b64_ws_at")
				if len(s) >= 4 {
					at -= at % 4 // a verifier that strips whitespace would still decode it
					if rapid.Bool().Draw(rt, "b64_ws_unaligned") && at < len(s) {
						at++
					}
				}
				return s[:at] + ws + s[at:]
			case "b64-non-ascii":
				c := rapid.SampledFrom([]string{"Ａ", "é", "\x80", "\xff", "~", "*", ",", ":", "\u0000", "%3D"}).Draw(rt, "b64_char")
				at := rapid.IntRange(0, len(s)).Draw(rt, "b64_char_at")
				return s[:at] + c + s[at:]
			case "b64-length1":
				// the one length no base64 text has: 1 modulo 4
				s += "A"
				for len(s)%4 != 1 {
					s += "A"
				}
				return s
			default: // trailing bits: set some of the unused low bits of the last character
				unused := map[int]int{2: 4, 3: 2}[len(s)%4]
				return mangleLast(s, rapid.IntRange(1, 1<<unused-1).Draw(rt, "b64_trailing_bits"))
			}
		}
		// make the variants applicable to header and payload: a member whose value encodes to '_' in
		// every alignment, and trailing spaces until the encoding is not a multiple of 4 characters
		if kind == "b64-std-alphabet" {
			hs = hs[:len(hs)-1] + `,"q":"??????"}`
			ps = ps[:len(ps)-1] + `,"q":"??????"}`
			if ps == `,"q":"??????"}` || strings.HasPrefix(ps, "{,") {
				ps = `{"q":"??????"}`
			}
		}
		if kind == "b64-trailing-bits" || kind == "b64-padding" {
			for len(hs)%3 == 0 {
				hs += " "
			}
			for len(ps)%3 == 0 {
				ps += " "
			}
		}
		// the signature part cannot be shaped: it is offered only when the variant applies to it
		good := makeToken(rt, k, k.alg, h, b)
		dot := strings.LastIndex(good, ".")
		sig := good[dot+1:]
		partsOffered := []int{0, 1}
		switch {
		case kind == "b64-std-alphabet" && !strings.ContainsAny(sig, "-_"):
		case kind == "b64-trailing-bits" && len(sig)%4 == 0:
		default:
			partsOffered = append(partsOffered, 2)
		}
		part := gen.Pick(rt, "b64_part", partsOffered)
		var tok, s string
		switch part {
		case 0:
			s = alter(enc(hs))
			tok = signParts(rt, k, k.alg, s, p64)
		case 1:
			s = alter(enc(ps))
			tok = signParts(rt, k, k.alg, h64, s)
		default:
			s = alter(sig)
			tok = good[:dot+1] + s
		}
		if tok == good {
			rt.Fatalf("harness: manipulation %s of part %d left the token as it was: %q", kind, part, tok)
		}
		evid.Add(fmt.Sprintf("manip/%s/part%d", kind, part), 1)
		return manip{kind: fmt.Sprintf("%s/part%d", kind, part), token: tok, note: s}
	case "payload-not-object":
		return withPayloadText(kind, gen.Pick(rt, "payload_text", []string{"[]", `"x"`, "null", "1", "true", "", " ", "[" + b + "]", b + b, b[:len(b)-1], "{" + b + "}", b + ",", "\ufeff" + b, `{"a"}`, "{,}"}))
	case "payload-claim-type":
		name := gen.Pick(rt, "bad_claim", []string{"iss", "sub", "jti", "aud", "aud", "exp", "nbf", "iat"})
		var raw string
		switch name {
		case "iss", "sub", "jti":
			raw = rapid.SampledFrom(nonStringJSON).Draw(rt, "bad_value")
		case "aud":
			raw = rapid.SampledFrom([]string{"[]", "1", "null", "true", "{}", `[1]`, `["a",1]`, `["a",null]`, `[["a"]]`, `[{"a":"b"}]`, `{"a":"b"}`, `["a",["b"]]`}).Draw(rt, "bad_value")
		default:
			raw = rapid.SampledFrom([]string{`"1700000000"`, "null", "true", "[]", "[1700000000]", "{}", "-1", "-1700000000", "253402300800", "253402300801", "9007199254740992", `""`, `"NaN"`, `"Infinity"`}).Draw(rt, "bad_value")
		}
		return withPayloadText(kind+"/"+name, object(replaceMember(payload, name, raw)))
	case "payload-whitespace":
		ws := rapid.SampledFrom([]string{" ", "\n", "\r\n", "\t"}).Draw(rt, "ws")
		return withPayloadText(kind, ws+strings.ReplaceAll(b, `":`, `"`+ws+`:`+ws)+ws)
	case "payload-duplicate":
		ms := append([]member{}, payload...)
		dup := rapid.SampledFrom([]member{{"exp", "1"}, {"exp", "253402300799"}, {"iss", `"x"`}, {"aud", `"x"`}, {"nbf", "253402300799"}, {"foo", "1"}}).Draw(rt, "dup")
		if rapid.Bool().Draw(rt, "dup_first") {
			ms = append([]member{dup}, ms...)
		} else {
			ms = append(ms, dup)
		}
		if dup.name == "foo" {
			ms = append(ms, member{"foo", "2"})
		}
		return withPayloadText(kind, object(ms))
	case "payload-surrogate":
		raw := rapid.SampledFrom([]string{`"\ud800"`, `"\udc00"`, `"\ud800x"`, `"\udc00\ud800"`, `"a\ud83d"`, `["\udfff"]`, `{"\ud800":1}`}).Draw(rt, "surrogate")
		name := rapid.SampledFrom([]string{"iss", "sub", "custom", "aud"}).Draw(rt, "surrogate_claim")
		return withPayloadText(kind, object(replaceMember(payload, name, raw)))
	case "payload-big-number":
		raw := rapid.SampledFrom([]string{"1e400", "-1e400", "9007199254740993", "9223372036854775808", "18446744073709551616", "123456789012345678901234567890", "1e19", "1E2", "1e-400", "0.1234567890123456789", "-0", "1.0e0"}).Draw(rt, "big")
		name := rapid.SampledFrom([]string{"custom", "custom", "exp", "nbf", "iat"}).Draw(rt, "big_claim")
		return withPayloadText(kind+"/"+name, object(replaceMember(payload, name, raw)))
	case "payload-fractional-time":
		name := rapid.SampledFrom([]string{"exp", "nbf", "iat"}).Draw(rt, "frac_claim")
		raw := rapid.SampledFrom([]string{"0.5", "-0.5", "1700000000.5", "253402300799.5", "1699999999.999", "1700000000.000001", "1.5"}).Draw(rt, "frac")
		return withPayloadText(kind+"/"+name, object(replaceMember(payload, name, raw)))
	case "payload-exponent-time":
		name := rapid.SampledFrom([]string{"exp", "nbf", "iat"}).Draw(rt, "exp_claim")
		raw := rapid.SampledFrom([]string{"1.7e9", "17e8", "1700000000.0", "1700000000e0", "2.5e11", "2.6e11", "1e300"}).Draw(rt, "exp_form")
		return withPayloadText(kind+"/"+name, object(replaceMember(payload, name, raw)))
	case "payload-deep":
		n := rapid.SampledFrom([]int{20, 33, 100, 1000, 9990, 10050}).Draw(rt, "depth")
		open, close := "[", "]"
		if rapid.Bool().Draw(rt, "deep_objects") {
			open, close = `{"a":`, "}"
		}
		raw := strings.Repeat(open, n) + "1" + strings.Repeat(close, n)
		return withPayloadText(fmt.Sprintf("%s/%d", kind, n), object(replaceMember(payload, "custom", raw)))
	case "payload-invalid-utf8":
		bad := rapid.SampledFrom([]string{"\xff", "\xc0\x80", "\xed\xa0\x80", "\xf4\x90\x80\x80", "\xe2\x82", "a\x80b"}).Draw(rt, "bad_utf8")
		name := rapid.SampledFrom([]string{"iss", "sub", "custom", "aud", "jti"}).Draw(rt, "utf8_claim")
		where := rapid.SampledFrom([]string{"value", "name", "list"}).Draw(rt, "utf8_where")
		ms := replaceMember(payload, name, `"`+bad+`"`)
		switch where {
		case "name":
			ms = append(append([]member{}, payload...), member{"x" + bad, "1"})
			text := object(ms)
			text = strings.Replace(text, jstr("x"+bad), `"x`+bad+`"`, 1) // jstr replaced the bad bytes: put them back
			return withPayloadText(kind+"/name", text)
		case "list":
			ms = replaceMember(payload, "aud", `["ok","`+bad+`"]`)
		}
		return withPayloadText(kind+"/"+where, object(ms))
	case "payload-escaped-names":
		// one name of a claim that is in the payload for sure, and each of the others half of the time
		text := b
		must := gen.Pick(rt, "esc_must", escapable)
		for _, n := range escapable {
			if n == must || rapid.Bool().Draw(rt, "esc_"+n) {
				text = strings.Replace(text, `"`+n+`"`, `"\u00`+fmt.Sprintf("%02x", n[0])+n[1:]+`"`, 1)
			}
		}
		if text == b {
			rt.Fatalf("harness: no claim name of %s could be written with an escape", b)
		}
		return withPayloadText(kind, text)
	}
	panic("unhandled manipulation " + kind)
}

func swapCase(s string) string {
	b := []byte(s)
	for i, c := range b {
		switch {
		case c >= 'a' && c <= 'z':
			b[i] = c - 32
		case c >= 'A' && c <= 'Z':
			b[i] = c + 32
		}
	}
	return string(b)
}

// drawBase draws base claims and a validator that accepts them (several shapes, so that the
// manipulations interact with expectations).
func drawBase(rt *rapid.T) (typ *string, payload []member, v jwtref.Validator) {
	typ, payload, v, _ = drawBaseOpts(rt)
	return
}

// drawBaseOpts is drawBase plus the RawJWTOptions standing for the same token.
func drawBaseOpts(rt *rapid.T) (typ *string, payload []member, v jwtref.Validator, opts *jwt.RawJWTOptions) {
	now := drawNow(rt, 601)
	opts = &jwt.RawJWTOptions{}
	v = jwtref.Validator{Now: now, Skew: rapid.SampledFrom(wholeSkews).Draw(rt, "skew")}
	if rapid.Bool().Draw(rt, "has_typ") {
		typ = sptr(rapid.SampledFrom([]string{"JWT", "at+jwt", ""}).Draw(rt, "typ"))
		opts.TypeHeader = sptr(*typ)
		if rapid.Bool().Draw(rt, "expect_typ") {
			v.ExpectedTyp = sptr(*typ)
		} else {
			v.IgnoreTyp = true
		}
	} else {
		v.IgnoreTyp = rapid.Bool().Draw(rt, "ignore_typ")
	}
	if rapid.Bool().Draw(rt, "has_iss") {
		payload = append(payload, member{"iss", `"issuer"`})
		opts.Issuer = sptr("issuer")
		if rapid.Bool().Draw(rt, "expect_iss") {
			v.ExpectedIss = sptr("issuer")
		} else {
			v.IgnoreIss = true
		}
	}
	switch rapid.IntRange(0, 2).Draw(rt, "aud_shape") {
	case 1:
		payload = append(payload, member{"aud", `"me"`})
		opts.Audience = sptr("me")
		v.ExpectedAud = sptr("me")
	case 2:
		payload = append(payload, member{"aud", `["other","me"]`})
		opts.Audiences = []string{"other", "me"}
		if rapid.Bool().Draw(rt, "expect_aud") {
			v.ExpectedAud = sptr("me")
		} else {
			v.IgnoreAud = true
		}
	}
	at := func(sec int64) *time.Time { t := time.Unix(sec, 0); return &t }
	if rapid.IntRange(0, 3).Draw(rt, "has_exp") > 0 {
		exp := now.Unix() + rapid.SampledFrom([]int64{1, 60, 3600}).Draw(rt, "exp_in")
		if exp > jwtref.TimestampMax {
			exp = jwtref.TimestampMax
		}
		payload = append(payload, member{"exp", fmt.Sprint(exp)})
		opts.ExpiresAt = at(exp)
	} else {
		v.AllowMissingExpiration = true
		opts.WithoutExpiration = true
	}
	if rapid.Bool().Draw(rt, "has_nbf") {
		payload = append(payload, member{"nbf", fmt.Sprint(now.Unix() - 10)})
		opts.NotBefore = at(now.Unix() - 10)
	}
	if rapid.Bool().Draw(rt, "has_iat") {
		payload = append(payload, member{"iat", fmt.Sprint(now.Unix() - 20)})
		opts.IssuedAt = at(now.Unix() - 20)
		v.ExpectIssuedInThePast = rapid.Bool().Draw(rt, "expect_iat")
	}
	if rapid.Bool().Draw(rt, "has_custom") {
		val := drawTameValue(rt, "custom", 1)
		payload = append(payload, member{"custom", jtext(val)})
		opts.CustomClaims = map[string]any{"custom": val}
	}
	return typ, payload, v, opts
}

// TestHeaderManipulation: hand-built tokens (reference signer, the keyset's own key material) with
// one manipulation of the header, the token structure, the base64 encoding or the payload. Tink's
// decision must equal the reference decision; constructs the property is silent about get the
// robustness oracle.
func TestHeaderManipulation(t *testing.T) {
	check(t, func(rt *rapid.T) {
		detrand.Seed(rapid.Uint64().Draw(rt, "entropy"))
		k := drawKey(rt, "key", famAny)
		p := single(rt, k)
		typ, payload, v := drawBase(rt)
		m := drawManipulation(rt, k, typ, payload)
		ctx := fmt.Sprintf("manipulation %s (%s)\nbase header=%s payload=%s", m.kind, m.note, object(goodHeader(k, typ)), object(payload))
		if len(ctx) > 6000 {
			ctx = fmt.Sprintf("manipulation %s\nbase header=%s payload=%s", m.kind, object(goodHeader(k, typ)), object(payload))
		}
		o := decide(rt, ctx, p, m.token, v, tinkValidator(rt, v, false))
		if m.kind == "untouched" && !(o.d.Accept && o.strict) {
			rt.Fatalf("harness: the untouched base token is not accepted by the reference: %+v", o.d)
		}
		class := fmt.Sprintf("manip/%s/%s/accept=%v/strict=%v", m.kind, reasonClass(o.d), o.d.Accept, o.strict)
		evid.Add("manip_"+k.fam+"_"+k.strategy, 1)
		fp := evid.NewH().S(k.String()).S(m.token).S(vdesc(v)).Sum()
		tok := m.token
		if len(tok) > 400 {
			tok = tok[:400] + "..."
		}
		evid.Case(class, m.kind != "untouched", fp, func() any {
			return map[string]any{"key": k.class(), "manipulation": m.kind, "token": tok, "validator": vdesc(v), "reference": o.d.Reason, "silent": o.d.Silent}
		})
	})
}
