package c09

import (
	"fmt"
	"testing"
	"time"

	"github.com/tink-crypto/tink-go/v2/jwt"
	"github.com/tink-crypto/tink-go/v2/keyset"
	"github.com/tink-crypto/tink-go/v2/verifharness/internal/evid"
)

// TestRealClock is the one unit of the package that uses the wall clock: validators WITHOUT
// FixedNow. The exp / nbf rules of the property are rules about the time of the verification, so
//
//   - exp an hour ago is rejected, exp in an hour is accepted, nbf in an hour is rejected,
//     nbf an hour ago is accepted (margins of an hour: no scheduling delay matters), and
//   - a validator built BEFORE a 2.1 s sleep rejects, after the sleep, a token whose exp lay one
//     to two seconds after the validator was built: "now" is read when a token is verified, not when
//     the validator is made.
//
// Every assertion is made only when the wall clock, read before and after the verification, puts
// the token on the asserted side by at least a second (a clock that is stepped during the test
// makes the case inconclusive, never failing). Plain unit, about 2.2 s.
func TestRealClock(t *testing.T) {
	if evid.EnvInt("VERIF_SHARD", 0) != 0 {
		t.Skip("single-shard unit")
	}
	type party struct {
		name   string
		sign   func(*jwt.RawJWT) (string, error)
		verify func(string, *jwt.Validator) (*jwt.VerifiedJWT, error)
	}
	var parties []party
	{
		h, err := keyset.NewHandle(jwt.HS256Template())
		if err != nil {
			t.Fatalf("NewHandle(HS256Template): %v", err)
		}
		m, err := jwt.NewMAC(h)
		if err != nil {
			t.Fatalf("jwt.NewMAC: %v", err)
		}
		parties = append(parties, party{"HS256", m.ComputeMACAndEncode, m.VerifyMACAndDecode})
	}
	{
		h, err := keyset.NewHandle(jwt.RawES256Template())
		if err != nil {
			t.Fatalf("NewHandle(RawES256Template): %v", err)
		}
		s, err := jwt.NewSigner(h)
		if err != nil {
			t.Fatalf("jwt.NewSigner: %v", err)
		}
		pub, err := h.Public()
		if err != nil {
			t.Fatalf("Public: %v", err)
		}
		v, err := jwt.NewVerifier(pub)
		if err != nil {
			t.Fatalf("jwt.NewVerifier: %v", err)
		}
		parties = append(parties, party{"ES256", s.SignAndEncode, v.VerifyAndDecode})
	}
	newValidator := func(opts *jwt.ValidatorOpts) *jwt.Validator {
		v, err := jwt.NewValidator(opts)
		if err != nil {
			t.Fatalf("NewValidator(%+v): %v", *opts, err)
		}
		return v
	}
	token := func(p party, exp, nbf *time.Time) string {
		raw, err := jwt.NewRawJWT(&jwt.RawJWTOptions{ExpiresAt: exp, NotBefore: nbf, WithoutExpiration: exp == nil})
		if err != nil {
			t.Fatalf("NewRawJWT: %v", err)
		}
		tok, err := p.sign(raw)
		if err != nil {
			t.Fatalf("%s: signing: %v", p.name, err)
		}
		return tok
	}
	at := func(sec int64) *time.Time { x := time.Unix(sec, 0); return &x }
	inconclusive := 0

	// --- margins of an hour ---------------------------------------------------------------------
	for _, p := range parties {
		for _, c := range []struct {
			name     string
			exp, nbf int64 // offsets from now in seconds; 0 = claim absent
			accept   bool
		}{
			{"exp=now-3600", -3600, 0, false},
			{"exp=now+3600", 3600, 0, true},
			{"nbf=now+3600 (exp=now+7200)", 7200, 3600, false},
			{"nbf=now-3600 (exp=now+3600)", 3600, -3600, true},
			{"nbf=now+3600, no exp", 0, 3600, false},
		} {
			before := time.Now()
			var exp, nbf *time.Time
			if c.exp != 0 {
				exp = at(before.Unix() + c.exp)
			}
			if c.nbf != 0 {
				nbf = at(before.Unix() + c.nbf)
			}
			tok := token(p, exp, nbf)
			val := newValidator(&jwt.ValidatorOpts{AllowMissingExpiration: exp == nil})
			_, err := p.verify(tok, val)
			after := time.Now()
			evid.Case("realclock/hour/"+p.name+"/"+c.name, true, evid.NewH().S(p.name).S(c.name).Sum(), func() any { return map[string]any{"accepted": err == nil} })
			if d := after.Unix() - before.Unix(); d < 0 || d > 60 {
				inconclusive++
				continue // the wall clock was stepped, or the machine was suspended
			}
			if (err == nil) != c.accept {
				t.Fatalf("%s, validator without FixedNow (wall clock %d..%d), token %q with %s: accepted=%v (err %v), want accepted=%v", p.name, before.Unix(), after.Unix(), tok, c.name, err == nil, err, c.accept)
			}
		}
	}

	// --- "now" is the time of the verification --------------------------------------------------
	type pending struct {
		p   party
		val *jwt.Validator
		tok string
		exp int64
	}
	var ps []pending
	for _, p := range parties {
		t0 := time.Now()
		exp := t0.Unix() + 1 // strictly after t0, at most one second after it
		val := newValidator(&jwt.ValidatorOpts{})
		tok := token(p, at(exp), nil)
		_, err := p.verify(tok, val)
		t1 := time.Now()
		switch {
		case t0.Unix() <= t1.Unix() && t1.Unix() < exp:
			// every clock reading between t0 and t1 lies before exp: the token is not expired
			if err != nil {
				t.Fatalf("%s, validator without FixedNow: token %q with exp=%d is REJECTED (%v) although the wall clock read %d.%09d before and %d.%09d after the verification", p.name, tok, exp, err, t0.Unix(), t0.Nanosecond(), t1.Unix(), t1.Nanosecond())
			}
			evid.Add("realclock_fresh_token_accepted", 1)
		default:
			inconclusive++ // the second ticked over during the verification
		}
		ps = append(ps, pending{p, val, tok, exp})
	}
	time.Sleep(2100 * time.Millisecond)
	for _, x := range ps {
		before := time.Now()
		_, err := x.p.verify(x.tok, x.val)
		after := time.Now()
		evid.Case("realclock/sleep/"+x.p.name, true, evid.NewH().S(x.p.name).S("sleep").Sum(), func() any { return map[string]any{"accepted": err == nil} })
		if before.Unix() < x.exp+1 || after.Unix() < x.exp+1 || after.Unix()-before.Unix() > 60 {
			inconclusive++ // the wall clock went backwards
			continue
		}
		if err == nil {
			t.Fatalf("%s: a validator without FixedNow that was built before exp=%d ACCEPTS the token %q at wall-clock time %d.%09d..%d.%09d, more than a second after its expiry (is \"now\" taken when the validator is built?)", x.p.name, x.exp, x.tok, before.Unix(), before.Nanosecond(), after.Unix(), after.Nanosecond())
		}
		// a validator built now agrees
		if _, err := x.p.verify(x.tok, newValidator(&jwt.ValidatorOpts{})); err == nil && time.Now().Unix() >= x.exp+1 {
			t.Fatalf("%s: a fresh validator without FixedNow ACCEPTS the token %q more than a second after exp=%d", x.p.name, x.tok, x.exp)
		}
	}
	evid.Add("realclock_inconclusive", int64(inconclusive))
	if inconclusive > 0 {
		fmt.Printf("c09 TestRealClock: %d inconclusive sub-cases (wall clock stepped or second boundary crossed)\n", inconclusive)
	}
}
