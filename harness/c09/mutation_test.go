package c09

import (
	"fmt"
	"strings"
	"testing"

	"pgregory.net/rapid"

	"github.com/tink-crypto/tink-go/v2/jwt"
	"github.com/tink-crypto/tink-go/v2/verifharness/internal/detrand"
	"github.com/tink-crypto/tink-go/v2/verifharness/internal/evid"
	"github.com/tink-crypto/tink-go/v2/verifharness/internal/gen"
)

// TestTokenMutation: a valid token made by Tink, then bit / byte mutations of each of its three
// parts and of the whole string. A mutated token must be rejected unless the reference decision
// says it is still valid. Mutations that only touch the unused trailing bits of a base64 part
// decode to the same bytes; the property does not say whether such encodings are to be refused
// (Tink accepts them), so these candidates are counted and get the robustness oracle only.
func TestTokenMutation(t *testing.T) {
	check(t, func(rt *rapid.T) {
		detrand.Seed(rapid.Uint64().Draw(rt, "entropy"))
		k := drawKey(rt, "key", famAny)
		p := single(rt, k)
		skew := rapid.SampledFrom(wholeSkews).Draw(rt, "skew")
		now := drawNow(rt, 601)
		m := drawModel(rt, now.Unix(), skew, true, true)
		_, hasIAT := m.claims["iat"]
		v := matchingValidator(rt, m, now, skew, hasIAT && rapid.Bool().Draw(rt, "v_expect_iat"))
		tv := tinkValidator(rt, v, false)
		raw, err := jwt.NewRawJWT(m.opts)
		if err != nil {
			rt.Fatalf("NewRawJWT: %v", err)
		}
		token, err := p.sign(raw)
		if err != nil {
			rt.Fatalf("sign with %v: %v", k, err)
		}
		base := fmt.Sprintf("token mutation; original token %q typ=%s claims=%s", token, pstr(m.typ), jtext(m.claims))
		if o := decide(rt, base+"\n(unmodified)", p, token, v, tv); !o.d.Accept || !o.strict {
			rt.Fatalf("%s\nunmodified token not accepted by the reference: %s %v", base, o.d.Reason, o.d.Silent)
		}
		parts := strings.Split(token, ".")
		n, silent, stillValid := 0, 0, 0
		try := func(kind, cand string) {
			if cand == token {
				return
			}
			n++
			o := decide(rt, fmt.Sprintf("%s\nmutation %s", base, kind), p, cand, v, tv)
			if !o.strict {
				silent++
				evid.Add("mutation_skipped_"+strings.Join(o.d.Silent, "+"), 1)
				return
			}
			if o.d.Accept {
				stillValid++ // decided by reference equality inside decide
			}
			evid.Add("mutation_"+strings.SplitN(kind, " ", 2)[0]+"_"+reasonClass(o.d), 1)
		}
		for i := range parts {
			for j := 0; j < 3; j++ {
				mu := gen.Mutate(rt, fmt.Sprintf("part%d_%d", i, j), []byte(parts[i]))
				c := append([]string{}, parts...)
				c[i] = string(mu.Out)
				try(fmt.Sprintf("part%d-%s at %d", i, mu.Kind, mu.Pos), strings.Join(c, "."))
			}
			// the last character of the part: flip each of its 6 value bits (covers the unused trailing bits)
			if len(parts[i]) > 0 {
				const alphabet = "ABCDEFGHIJKLMNOPQRSTUVWXYZabcdefghijklmnopqrstuvwxyz0123456789-_"
				last := strings.IndexByte(alphabet, parts[i][len(parts[i])-1])
				bit := rapid.IntRange(0, 5).Draw(rt, fmt.Sprintf("part%d_lastbit", i))
				c := append([]string{}, parts...)
				c[i] = parts[i][:len(parts[i])-1] + string(alphabet[last^(1<<bit)])
				try(fmt.Sprintf("part%d-lastchar-bit%d", i, bit), strings.Join(c, "."))
				// and one value bit of a drawn character
				pos := rapid.IntRange(0, len(parts[i])-1).Draw(rt, fmt.Sprintf("part%d_pos", i))
				cur := strings.IndexByte(alphabet, parts[i][pos])
				bit = rapid.IntRange(0, 5).Draw(rt, fmt.Sprintf("part%d_bit", i))
				c = append([]string{}, parts...)
				c[i] = parts[i][:pos] + string(alphabet[cur^(1<<bit)]) + parts[i][pos+1:]
				try(fmt.Sprintf("part%d-valuebit%d at %d", i, bit, pos), strings.Join(c, "."))
			}
		}
		for j := 0; j < 3; j++ {
			mu := gen.Mutate(rt, fmt.Sprintf("whole_%d", j), []byte(token))
			try(fmt.Sprintf("whole-%s at %d", mu.Kind, mu.Pos), string(mu.Out))
		}
		// parts swapped / dropped / repeated
		try("swap-header-payload", parts[1]+"."+parts[0]+"."+parts[2])
		try("signature-as-payload", parts[0]+"."+parts[2]+"."+parts[2])
		try("payload-dropped", parts[0]+"."+parts[2])
		try("signature-dropped", parts[0]+"."+parts[1])
		try("signature-emptied", parts[0]+"."+parts[1]+".")
		try("payload-emptied", parts[0]+".."+parts[2])
		try("upper-cased", strings.ToUpper(token))

		evid.Add("mutation_candidates", int64(n))
		evid.Add("mutation_candidates_robustness_only", int64(silent))
		evid.Add("mutation_candidates_still_valid", int64(stillValid))
		fp := evid.NewH().S(k.String()).S(token).S(vdesc(v)).Sum()
		evid.Case(fmt.Sprintf("mutation/%s", k.class()), true, fp, func() any {
			return map[string]any{"key": k.String(), "token": token, "validator": vdesc(v), "candidates": n, "robustness_only": silent}
		})
	})
}
