package c09

import (
	"fmt"
	"testing"

	"pgregory.net/rapid"

	"github.com/tink-crypto/tink-go/v2/jwt"
	"github.com/tink-crypto/tink-go/v2/verifharness/internal/detrand"
	"github.com/tink-crypto/tink-go/v2/verifharness/internal/evid"
	"github.com/tink-crypto/tink-go/v2/verifharness/internal/gen"
)

// sameMaterial reports whether two keys share their key material (whatever the kid strategy).
func sameMaterial(a, b *jkey) bool { return a.matDesc == b.matDesc }

// drawKeyset draws 2..4 keys of one class (MAC or signature) with mixed algorithms and kid
// strategies, pairwise different key IDs, one of them possibly disabled, sometimes the same material
// twice under two strategies.
func drawKeyset(rt *rapid.T, families []string) []entry {
	n := rapid.IntRange(2, 4).Draw(rt, "nkeys")
	var entries []entry
	usedIDs := map[uint32]bool{}
	for i := 0; i < n; i++ {
		label := fmt.Sprintf("key%d", i)
		var k *jkey
		if i > 0 && rapid.IntRange(0, 4).Draw(rt, label+"_reuse_material") == 0 {
			// the same material as an earlier key under another algorithm-compatible entry and kid strategy
			src := entries[rapid.IntRange(0, i-1).Draw(rt, label+"_reuse_from")].k
			strategy := rapid.SampledFrom(strategies).Draw(rt, label+"_kid_strategy")
			id := gen.KeyID(rt, label+"_id")
			for usedIDs[id] {
				id++
			}
			var err error
			k, err = src.withStrategy(strategy, id, drawCustomKID(rt, label+"_custom_kid"))
			if err != nil {
				rt.Fatalf("rebuild of %v under %s: %v", src, strategy, err)
			}
		} else {
			k = drawKey(rt, label, families)
			if k.strategy == stTink && usedIDs[k.id] {
				id := k.id
				for usedIDs[id] {
					id++
				}
				var err error
				if k, err = k.withStrategy(stTink, id, ""); err != nil {
					rt.Fatalf("rebuild: %v", err)
				}
			}
		}
		if k.strategy == stTink {
			usedIDs[k.id] = true
		}
		entries = append(entries, entry{k: k, enabled: true})
	}
	primary := rapid.IntRange(0, n-1).Draw(rt, "primary")
	entries[primary].primary = true
	if d := rapid.IntRange(-1, n-1).Draw(rt, "disabled"); d >= 0 && d != primary {
		entries[d].enabled = false
	}
	return entries
}

// TestKeysets: multi-key JWT keysets. A token signed by each single key is accepted iff the
// reference accepts it (the key is enabled and its kid rule lets the token match some enabled
// key); tokens from a foreign key carrying the same header are rejected; the keyset's own signer
// uses the primary key.
func TestKeysets(t *testing.T) {
	check(t, func(rt *rapid.T) {
		detrand.Seed(rapid.Uint64().Draw(rt, "entropy"))
		mac := rapid.IntRange(0, 2).Draw(rt, "class") == 0
		fams := famSig
		if mac {
			fams = famMAC
		}
		entries := drawKeyset(rt, fams)
		p := newParty(rt, entries)
		if p == nil {
			rt.Skip("random key ID collided with an ID requirement")
		}
		typ, payload, v, opts := drawBaseOpts(rt)
		tv := tinkValidator(rt, v, false)
		body := object(payload)
		rawFromBase := func() *jwt.RawJWT {
			raw, err := jwt.NewRawJWT(opts)
			if err != nil {
				rt.Fatalf("NewRawJWT refuses the base options (payload %s): %v", body, err)
			}
			return raw
		}
		accepted, rejected := 0, 0
		count := func(o outcome) {
			if o.d.Accept {
				accepted++
			} else {
				rejected++
			}
		}
		for i, e := range entries {
			k := e.k
			ctx := fmt.Sprintf("keyset member [%d]", i)
			// 1. token made by Tink from a one-key keyset holding just this key
			one := single(rt, k)
			raw := rawFromBase()
			tok, err := one.sign(raw)
			if err != nil {
				rt.Fatalf("sign with %v: %v", k, err)
			}
			o := decide(rt, ctx+": token made by Tink with this key alone", p, tok, v, tv)
			count(o)
			if e.enabled && !o.d.Accept {
				rt.Fatalf("harness: reference rejects a token of an enabled member: %s", o.d.Reason)
			}
			// 2. reference-signed with this key's material and header
			tok = makeToken(rt, k, k.alg, object(goodHeader(k, typ)), body)
			count(decide(rt, ctx+": reference-signed token of this key", p, tok, v, tv))
			// 3. the same material, header without kid / with another member's kid
			tok = makeToken(rt, k, k.alg, object(replaceMember(goodHeader(k, typ), "kid", "")), body)
			count(decide(rt, ctx+": reference-signed, kid removed", p, tok, v, tv))
			j := rapid.IntRange(0, len(entries)-1).Draw(rt, fmt.Sprintf("other_member_%d", i))
			if okid, has := entries[j].k.kid(); has {
				tok = makeToken(rt, k, k.alg, object(replaceMember(goodHeader(k, typ), "kid", jstr(okid))), body)
				count(decide(rt, fmt.Sprintf("%s: reference-signed, kid of member [%d]", ctx, j), p, tok, v, tv))
			}
			// 4. a foreign key of the same algorithm with this member's exact header
			foreign := drawMaterialFor(rt, fmt.Sprintf("foreign%d", i), k.fam, k.alg)
			isMember := false
			for _, m := range entries {
				if sameMaterial(m.k, foreign) {
					isMember = true // the shrinker may make the "foreign" key coincide with a member
				}
			}
			if !isMember {
				tok = makeToken(rt, foreign, k.alg, object(goodHeader(k, typ)), body)
				o := decide(rt, ctx+": FOREIGN key with this member's header: "+foreign.String(), p, tok, v, tv)
				count(o)
				if o.d.Accept {
					// an equivalent key (HMAC keys that differ in trailing zero bytes only): decided by
					// reference equality like every other token
					evid.Add("keyset_foreign_key_equivalent_to_member", 1)
				} else {
					evid.Add("keyset_foreign_tokens_rejected", 1)
				}
			}
		}
		// the keyset's own signer / MAC uses the primary key and its token verifies
		raw := rawFromBase()
		tok, err := p.sign(raw)
		if err != nil {
			rt.Fatalf("keyset signer:%s: %v", describe(entries), err)
		}
		o := decide(rt, "token made by the keyset's own signer", p, tok, v, tv)
		count(o)
		if !o.d.Accept {
			rt.Fatalf("harness: reference rejects the keyset's own token: %s", o.d.Reason)
		}
		var primary *jkey
		for _, e := range entries {
			if e.primary {
				primary = e.k
			}
		}
		one := single(rt, primary)
		if o := decide(rt, "token made by the keyset's own signer, verified by the primary key alone", one, tok, v, tv); !o.d.Accept {
			rt.Fatalf("the keyset signer did not sign with the primary key: %s\nkeyset:%s\ntoken %q", o.d.Reason, describe(entries), tok)
		}
		nDisabled, nTink, nCustom := 0, 0, 0
		desc := ""
		for _, e := range entries {
			if !e.enabled {
				nDisabled++
			}
			switch e.k.strategy {
			case stTink:
				nTink++
			case stCustom:
				nCustom++
			}
			desc += e.k.String()
		}
		evid.Add("keyset_decisions_accept", int64(accepted))
		evid.Add("keyset_decisions_reject", int64(rejected))
		class := fmt.Sprintf("keyset/mac=%v/keys=%d/disabled=%d/tink=%d/custom=%d", mac, len(entries), nDisabled, nTink, nCustom)
		evid.Case(class, true, evid.NewH().S(desc).S(body).S(vdesc(v)).Sum(), func() any {
			return map[string]any{"keyset": describe(entries), "payload": body, "validator": vdesc(v), "accepted": accepted, "rejected": rejected}
		})
	})
}
