package c09

import (
	"crypto/rand"
	"crypto/rsa"
	"fmt"
	"testing"
	"time"

	"github.com/tink-crypto/tink-go/v2/jwt"
	"github.com/tink-crypto/tink-go/v2/verifharness/internal/detrand"
	"github.com/tink-crypto/tink-go/v2/verifharness/internal/ref/mldsaref"
)

func TestProbe(t *testing.T) {
	for _, p := range []string{`null`, `{}`, ` {"a":1} `, `[]`, `"x"`, `{"a":"\ud800"}`, `{"a":"�"}`, "{\"a\":\"\xef\xbf\xbd\"}", "{\"a\":\"\xff\"}", `{"a":1,"a":2}`, `{"a":1e400}`, `{"a":-0}`, `{"exp":1.5}`, `{"exp":-0.5}`, `{"a":12345678901234567890}`, `{"a":"\u0000"}`, `{"iss":null}`, `{"aud":[]}`, `{"aud":null}`, `{"exp":null}`, `{"a":01}`, `{"a":1.}`, `{"a":.5}`, `{"a":+1}`, "\ufeff{}", `{} x`, `{"a":NaN}`, `{"a":"NaN"}`,`{"exp":"NaN"}`, `{"exp":"Infinity"}`, `{"exp":"1"}`,`{"a":Infinity}`, `{"a":"􏿿"}`, `{"a":"\uDFFF\uDBFF"}`, `{"a":'x'}`, "{\"a\":\"\t\"}", `{"a":1,}`, `{"a":[1,]}`, `{"a":True}`} {
		r, err := jwt.NewRawJWTFromJSON(nil, []byte(p))
		if err != nil {
			fmt.Printf("%-40q ERR %v\n", p, err)
			continue
		}
		js, _ := r.JSONPayload()
		fmt.Printf("%-40q OK  %s names=%q\n", p, js, r.CustomClaimNames())
	}
	detrand.Seed(42)
	for _, bits := range []int{2048, 2048, 3072} {
		t0 := time.Now()
		k, err := rsa.GenerateKey(rand.Reader, bits)
		fmt.Println(bits, time.Since(t0), err, k.N.BitLen(), k.N.Bytes()[:4])
	}
	for _, p := range mldsaref.AllParams {
		var xi [32]byte
		t0 := time.Now()
		pk, sk := mldsaref.KeyGenInternal(p, xi)
		t1 := time.Now()
		sig, err := mldsaref.Sign(p, sk, []byte("hello"), nil, [32]byte{})
		t2 := time.Now()
		ok := mldsaref.Verify(p, pk, []byte("hello"), nil, sig)
		t3 := time.Now()
		fmt.Println(p.Name, "keygen", t1.Sub(t0), "sign", t2.Sub(t1), err, "verify", t3.Sub(t2), ok)
	}
}
