package c09

import (
	"bytes"
	"crypto/ecdsa"
	"encoding/json"
	"fmt"
	"strings"
	"sync"
	"testing"
	"time"

	"github.com/tink-crypto/tink-go/v2/jwt"
	"github.com/tink-crypto/tink-go/v2/keyset"
	"github.com/tink-crypto/tink-go/v2/verifharness/internal/detrand"
	"github.com/tink-crypto/tink-go/v2/verifharness/internal/gen"
	"github.com/tink-crypto/tink-go/v2/verifharness/internal/ref/jwtref"
	"github.com/tink-crypto/tink-go/v2/verifharness/internal/ref/mldsaref"
)

// The fuzz target works on fixed keys: 15 algorithms x 3 kid strategies, made once per process
// from fixed seeds.

type fuzzParty struct {
	k      *jkey
	refs   []jwtref.Key
	verify func(string, *jwt.Validator) (*jwt.VerifiedJWT, error)
}

var (
	fuzzOnce    sync.Once
	fuzzParties []*fuzzParty
)

const fuzzNow = 1700000000

// fuzzValidators are the validator variants (selected by the input).
func fuzzValidators() []jwtref.Validator {
	now := time.Unix(fuzzNow, 0)
	return []jwtref.Validator{
		{Now: now, AllowMissingExpiration: true, IgnoreTyp: true, IgnoreIss: true, IgnoreAud: true},
		{Now: now, Skew: time.Minute, ExpectedTyp: sptr("JWT"), ExpectedIss: sptr("issuer"), ExpectedAud: sptr("me"), ExpectIssuedInThePast: true},
		{Now: now},
	}
}

func hmacHandle(k *jkey) (*keyset.Handle, error) {
	m := keyset.NewManager()
	id, err := m.AddKey(k.priv)
	if err != nil {
		return nil, err
	}
	if err := m.SetPrimary(id); err != nil {
		return nil, err
	}
	return m.Handle()
}

func fuzzSetup() {
	fuzzOnce.Do(func() {
		rsaKeys()
		detrand.Seed(0xF022C09)
		for ai, alg := range jwtref.Algs {
			fam := jwtref.Family(alg)
			for si, st := range strategies {
				k := &jkey{fam: fam, alg: alg, strategy: st}
				seed := uint64(ai*3+si) + 1000
				switch fam {
				case "HS":
					k.hmacKey = gen.Expand(seed, 64)
					k.mat = jwtref.Material{HMACKey: k.hmacKey}
				case "ES":
					curve, size := jwtref.CurveOf(alg)
					raw := gen.Expand(seed, size)
					raw[0] = 0 // below the group order of every curve
					raw[1] |= 1
					priv, err := ecdsa.ParseRawPrivateKey(curve, raw)
					if err != nil {
						panic(err)
					}
					k.ecScalar = raw
					if k.ecPoint, err = priv.PublicKey.Bytes(); err != nil {
						panic(err)
					}
					k.mat = jwtref.Material{EC: priv}
				case "RS", "PS":
					k.rsaIndex = (ai + si) % 3
					k.mat = jwtref.Material{RSA: rsaKeys()[k.rsaIndex]}
				case "ML-DSA":
					k.mldsaSeed = gen.Expand(seed, 32)
					pk, sk := mldsaref.KeyGenInternal(jwtref.MLDSAParams(alg), [32]byte(k.mldsaSeed))
					k.mat = jwtref.Material{MLDSAPublic: pk, MLDSAPrivate: sk}
				}
				k.matDesc = fmt.Sprintf("fuzz-key(alg %d, strategy %d)", ai, si)
				switch st {
				case stTink:
					k.id = 0x01020304 + uint32(ai)
				case stCustom:
					k.customKID = "custom-kid"
				}
				if err := k.build(); err != nil {
					panic(fmt.Sprintf("fuzz key %s/%s: %v", alg, st, err))
				}
				fp := &fuzzParty{k: k, refs: []jwtref.Key{k.ref(true)}}
				if fam == "HS" {
					h, err := hmacHandle(k)
					if err != nil {
						panic(err)
					}
					m, err := jwt.NewMAC(h)
					if err != nil {
						panic(err)
					}
					fp.verify = m.VerifyMACAndDecode
				} else {
					m := keyset.NewManager()
					id, err := m.AddKey(k.pub)
					if err != nil {
						panic(err)
					}
					if err := m.SetPrimary(id); err != nil {
						panic(err)
					}
					h, err := m.Handle()
					if err != nil {
						panic(err)
					}
					v, err := jwt.NewVerifier(h)
					if err != nil {
						panic(err)
					}
					fp.verify = v.VerifyAndDecode
				}
				fuzzParties = append(fuzzParties, fp)
			}
		}
	})
}

// FuzzJWTVerify: input (algSel, valSel, token). The low 7 bits of algSel select the key (algorithm x
// kid strategy, modulo 45), valSel the validator variant (modulo 3) - a byte of its own, so that every
// key meets every variant (with both in the 7 bits of one byte, 45 x 3 = 135 > 128 left keys 38..44
// without variant 2); when the high bit of algSel is set the part behind the last dot is replaced by a
// genuine reference signature over what is in front of it, so that the search reaches the header /
// payload / validator logic behind the signature check.
// Oracle: no panic; robustness oracle on every acceptance; and for tokens in the strict grammar
// Tink's decision equals the reference decision with equal claims.
func FuzzJWTVerify(f *testing.F) {
	fuzzSetup()
	vals := fuzzValidators()
	// seeds: for every key valid tokens under each validator variant, tokens sitting exactly on the
	// expiry / not-before bounds, and one token per header / encoding rule (all with the "re-sign"
	// bit, so the target puts a genuine signature behind them) ...
	enc := func(s string) string { return jwtref.B64Encode([]byte(s)) }
	full := `{"iss":"issuer","aud":["other","me"],"exp":1700000030,"nbf":1700000060,"iat":1700000060,"sub":"s","jti":"j"}`
	for i, fp := range fuzzParties {
		k := fp.k
		jwtTyp := sptr("JWT")
		good := goodHeader(k, nil)
		add := func(vi int, header, payload string) {
			f.Add(uint8(i)|0x80, uint8(vi), enc(header)+"."+enc(payload)+".")
		}
		// a complete token with its signature in place
		unsigned := enc(object(good)) + "." + enc(`{"custom":[1,"a",null,{"b":true}]}`)
		sig, err := k.mat.Sign(k.alg, []byte(unsigned))
		if err != nil {
			f.Fatal(err)
		}
		f.Add(uint8(i), uint8(i%3), unsigned+"."+jwtref.B64Encode(sig))
		add(0, object(good), `{}`)
		add(1, object(goodHeader(k, jwtTyp)), full)                                                             // nbf and iat exactly at now+skew
		add(1, object(goodHeader(k, jwtTyp)), strings.Replace(full, `"nbf":1700000060`, `"nbf":1700000061`, 1)) // one second too late
		add(1, object(goodHeader(k, jwtTyp)), strings.Replace(full, `"exp":1700000030`, `"exp":1699999940`, 1)) // exp exactly at now-skew
		add(1, object(goodHeader(k, jwtTyp)), strings.Replace(full, `"exp":1700000030`, `"exp":1699999941`, 1))
		add(1, object(good), full)                                                                            // typ expected but absent
		add(1, object(goodHeader(k, jwtTyp)), strings.Replace(full, `"aud":["other","me"],`, ``, 1))          // aud expected but absent
		add(1, object(goodHeader(k, jwtTyp)), strings.Replace(full, `"aud":["other","me"]`, `"aud":"me"`, 1)) // single string audience
		add(2, object(good), `{"exp":1700000000}`)                                                            // expired exactly now
		add(2, object(good), `{"exp":1700000001}`)
		// variant 2 is the only one with "present but not expected" rules: one token per rule
		add(2, object(goodHeader(k, jwtTyp)), `{"exp":1700000001}`)
		add(2, object(goodHeader(k, sptr("x"))), `{"exp":1700000001}`)
		add(2, object(good), `{"exp":1700000001,"iss":"issuer"}`)
		add(2, object(good), `{"exp":1700000001,"aud":"me"}`)
		add(2, object(good), `{"exp":1700000001,"iat":1700000061,"nbf":1700000000}`)
		add(0, object(append(append([]member{}, good...), member{"crit", `["exp"]`})), `{}`)
		add(0, object(replaceMember(good, "kid", "")), `{}`)
		add(0, object(replaceMember(good, "kid", `"wrong"`)), `{}`)
		add(0, object(replaceMember(good, "kid", `1`)), `{}`)
		add(0, object(replaceMember(good, "alg", jstr(strings.ToLower(k.alg)))), `{}`)
		add(0, object(replaceMember(good, "alg", `"none"`)), `{}`)
		add(0, object(replaceMember(good, "typ", `1`)), `{}`)
		add(0, object(append([]member{{"alg", `"none"`}}, good...)), `{}`)
		add(0, object(good), `{"aud":[]}`)
		add(0, object(good), `{"exp":"1700000001"}`)
		add(0, object(good), `{"exp":1.7000000015e9,"iss":"\ud800"}`)
		add(0, object(good), `null`)
		add(0, object(good), "{\"iss\":\"\xff\"}")
		add(0, object(good), `{"a":`+strings.Repeat("[", 200)+strings.Repeat("]", 200)+`}`)
		if sel := i; true {
			// encoding rules: padding, standard alphabet, whitespace (signed as written)
			h := object(good)
			for len(h)%3 == 0 {
				h += " "
			}
			f.Add(uint8(sel)|0x80, uint8(0), enc(h)+strings.Repeat("=", 4-len(enc(h))%4)+"."+enc(`{}`)+".")
			f.Add(uint8(sel)|0x80, uint8(0), enc(object(good))+"\n."+enc(`{}`)+".")
			f.Add(uint8(sel)|0x80, uint8(0), strings.NewReplacer("-", "+", "_", "/").Replace(enc(object(append(append([]member{}, good...), member{"q", `"??????"`}))))+"."+enc(`{}`)+".")
			f.Add(uint8(sel)|0x80, uint8(0), enc(object(good))+"."+enc(`{}`)+".x.")
		}
	}
	// ... and structural constants
	for _, c := range []string{"", ".", "..", "...", "a.b.c", "e30.e30.", "e30.e30.AA"} {
		for _, sel := range []uint8{0, 0x80, 0x80 | 9, 0x80 | 18, 0x80 | 27, 0x80 | 36} {
			f.Add(sel, sel%3, c)
		}
	}
	f.Fuzz(func(t *testing.T, algSel, valSel uint8, token string) {
		fp := fuzzParties[int(algSel&0x7f)%len(fuzzParties)]
		v := vals[int(valSel)%len(vals)]
		if algSel&0x80 != 0 {
			unsigned := token
			if i := strings.LastIndex(token, "."); i >= 0 {
				unsigned = token[:i]
			}
			sig, err := fp.k.mat.Sign(fp.k.alg, []byte(unsigned))
			if err != nil {
				t.Fatalf("reference signer: %v", err)
			}
			token = unsigned + "." + jwtref.B64Encode(sig)
		}
		opts := &jwt.ValidatorOpts{ExpectedTypeHeader: clonep(v.ExpectedTyp), ExpectedIssuer: clonep(v.ExpectedIss), ExpectedAudience: clonep(v.ExpectedAud),
			IgnoreTypeHeader: v.IgnoreTyp, IgnoreIssuer: v.IgnoreIss, IgnoreAudiences: v.IgnoreAud, AllowMissingExpiration: v.AllowMissingExpiration,
			ExpectIssuedInThePast: v.ExpectIssuedInThePast, ClockSkew: v.Skew, FixedNow: v.Now}
		tv, err := jwt.NewValidator(opts)
		if err != nil {
			t.Fatalf("NewValidator: %v", err)
		}
		got, verr := fp.verify(token, tv)
		d := jwtref.Decide(token, fp.refs, v)
		ctx := fmt.Sprintf("key %s/%s token=%q %s\nreference accept=%v reason=%q silent=%v; Tink err=%v", fp.k.alg, fp.k.strategy, token, vdesc(v), d.Accept, d.Reason, d.Silent, verr)
		if verr != nil && got != nil {
			t.Fatalf("%s\nrejected but a VerifiedJWT was returned", ctx)
		}
		if verr == nil {
			// robustness oracle
			if got == nil {
				t.Fatalf("%s\nnil VerifiedJWT without error", ctx)
			}
			if !jwtref.SignatureValidLenient(token, fp.refs) {
				t.Fatalf("%s\nACCEPTED a token whose signature is not valid under the key", ctx)
			}
			payload, _, derr := jwtref.B64Decode(strings.Split(token, ".")[1])
			payload = bytes.TrimPrefix(payload, []byte("\xef\xbb\xbf")) // RFC 8259 section 8.1: a parser may skip it
			var signed, returned any
			if derr != nil || json.Unmarshal(payload, &signed) != nil {
				t.Fatalf("%s\nACCEPTED a token whose payload is not base64url JSON", ctx)
			}
			js, jerr := got.JSONPayload()
			if jerr != nil || json.Unmarshal(js, &returned) != nil || !jsonEqual(signed, returned) {
				t.Fatalf("%s\nreturned claims %s differ from the signed payload %s", ctx, js, payload)
			}
		}
		if d.Strict() {
			if d.Accept != (verr == nil) {
				t.Fatalf("%s\nTink and the reference disagree on a token in the strict grammar", ctx)
			}
		}
	})
}
