package c09

import (
	"crypto/ecdsa"
	"encoding/json"
	"fmt"
	"strings"
	"sync"
	"testing"
	"time"

	"github.com/tink-crypto/tink-go/v2/jwt"
	"github.com/tink-crypto/tink-go/v2/keyset"
	"github.com/tink-crypto/tink-go/v2/verifharness/internal/detrand"
	"github.com/tink-crypto/tink-go/v2/verifharness/internal/gen"
	"github.com/tink-crypto/tink-go/v2/verifharness/internal/ref/jwtref"
	"github.com/tink-crypto/tink-go/v2/verifharness/internal/ref/mldsaref"
)

// The fuzz target works on fixed keys: 15 algorithms x 3 kid strategies, made once per process
// from fixed seeds.

type fuzzParty struct {
	k      *jkey
	refs   []jwtref.Key
	verify func(string, *jwt.Validator) (*jwt.VerifiedJWT, error)
}

var (
	fuzzOnce    sync.Once
	fuzzParties []*fuzzParty
)

const fuzzNow = 1700000000

// fuzzValidators are the validator variants (selected by the input).
func fuzzValidators() []jwtref.Validator {
	now := time.Unix(fuzzNow, 0)
	return []jwtref.Validator{
		{Now: now, AllowMissingExpiration: true, IgnoreTyp: true, IgnoreIss: true, IgnoreAud: true},
		{Now: now, Skew: time.Minute, ExpectedTyp: sptr("JWT"), ExpectedIss: sptr("issuer"), ExpectedAud: sptr("me"), ExpectIssuedInThePast: true},
		{Now: now},
	}
}

func hmacHandle(k *jkey) (*keyset.Handle, error) {
	m := keyset.NewManager()
	id, err := m.AddKey(k.priv)
	if err != nil {
		return nil, err
	}
	if err := m.SetPrimary(id); err != nil {
		return nil, err
	}
	return m.Handle()
}

func fuzzSetup() {
	fuzzOnce.Do(func() {
		rsaKeys()
		detrand.Seed(0xF022C09)
		for ai, alg := range jwtref.Algs {
			fam := jwtref.Family(alg)
			for si, st := range strategies {
				k := &jkey{fam: fam, alg: alg, strategy: st}
				seed := uint64(ai*3+si) + 1000
				switch fam {
				case "HS":
					k.hmacKey = gen.Expand(seed, 64)
					k.mat = jwtref.Material{HMACKey: k.hmacKey}
				case "ES":
					curve, size := jwtref.CurveOf(alg)
					raw := gen.Expand(seed, size)
					raw[0] = 0 // below the group order of every curve
					raw[1] |= 1
					priv, err := ecdsa.ParseRawPrivateKey(curve, raw)
					if err != nil {
						panic(err)
					}
					k.ecScalar = raw
					if k.ecPoint, err = priv.PublicKey.Bytes(); err != nil {
						panic(err)
					}
					k.mat = jwtref.Material{EC: priv}
				case "RS", "PS":
					k.rsaIndex = (ai + si) % 3
					k.mat = jwtref.Material{RSA: rsaKeys()[k.rsaIndex]}
				case "ML-DSA":
					k.mldsaSeed = gen.Expand(seed, 32)
					pk, sk := mldsaref.KeyGenInternal(jwtref.MLDSAParams(alg), [32]byte(k.mldsaSeed))
					k.mat = jwtref.Material{MLDSAPublic: pk, MLDSAPrivate: sk}
				}
				k.matDesc = fmt.Sprintf("fuzz-key(alg %d, strategy %d)", ai, si)
				switch st {
				case stTink:
					k.id = 0x01020304 + uint32(ai)
				case stCustom:
					k.customKID = "custom-kid"
				}
				if err := k.build(); err != nil {
					panic(fmt.Sprintf("fuzz key %s/%s: %v", alg, st, err))
				}
				fp := &fuzzParty{k: k, refs: []jwtref.Key{k.ref(true)}}
				if fam == "HS" {
					h, err := hmacHandle(k)
					if err != nil {
						panic(err)
					}
					m, err := jwt.NewMAC(h)
					if err != nil {
						panic(err)
					}
					fp.verify = m.VerifyMACAndDecode
				} else {
					m := keyset.NewManager()
					id, err := m.AddKey(k.pub)
					if err != nil {
						panic(err)
					}
					if err := m.SetPrimary(id); err != nil {
						panic(err)
					}
					h, err := m.Handle()
					if err != nil {
						panic(err)
					}
					v, err := jwt.NewVerifier(h)
					if err != nil {
						panic(err)
					}
					fp.verify = v.VerifyAndDecode
				}
				fuzzParties = append(fuzzParties, fp)
			}
		}
	})
}

// FuzzJWTVerify: input (algSel, token). The low 7 bits of algSel select the key (algorithm x kid
// strategy, modulo 45) and the validator variant; when the high bit is set the part behind the last
// dot is replaced by a genuine reference signature over what is in front of it, so that the search
// reaches the header / payload / validator logic behind the signature check.
// Oracle: no panic; robustness oracle on every acceptance; and for tokens in the strict grammar
// Tink's decision equals the reference decision with equal claims.
func FuzzJWTVerify(f *testing.F) {
	fuzzSetup()
	vals := fuzzValidators()
	// seeds: a valid token for every key and validator variant ...
	payloads := []string{
		`{"custom":[1,"a",null,{"b":true}]}`,
		`{"iss":"issuer","aud":["other","me"],"exp":1700000030,"nbf":1700000000,"iat":1700000060,"sub":"s","jti":"j"}`,
		`{"exp":1700000001}`,
	}
	for i, fp := range fuzzParties {
		for vi := range vals {
			var typ *string
			if vi == 1 {
				typ = sptr("JWT")
			}
			h := object(goodHeader(fp.k, typ))
			unsigned := jwtref.B64Encode([]byte(h)) + "." + jwtref.B64Encode([]byte(payloads[vi]))
			sig, err := fp.k.mat.Sign(fp.k.alg, []byte(unsigned))
			if err != nil {
				f.Fatal(err)
			}
			sel := uint8(i + 45*vi)
			if i+45*vi < 128 {
				f.Add(sel, unsigned+"."+jwtref.B64Encode(sig))
				f.Add(sel|0x80, unsigned+".")
			}
		}
	}
	// ... and hostile constants (re-signed by the target when the high bit is set)
	enc := func(s string) string { return jwtref.B64Encode([]byte(s)) }
	for _, c := range []string{
		"", ".", "..", "...", "a.b.c", "e30.e30.", "e30.e30.AA",
		enc(`{"alg":"none"}`) + "." + enc(`{}`) + ".",
		enc(`{"alg":"HS256","crit":["exp"]}`) + "." + enc(`{"exp":1700000001}`) + ".",
		enc(`{"alg":"HS256","alg":"none"}`) + "." + enc(`{}`) + ".",
		enc(`{"alg":"ES256","kid":1}`) + "." + enc(`{"exp":1.7e9}`) + ".",
		enc(`{"alg":"RS256","typ":1}`) + "." + enc(`{"aud":[]}`) + ".",
		enc(`{"alg":"PS256","kid":"custom-kid"}`) + "." + enc(`{"exp":1700000000.5,"iss":"\ud800"}`) + ".",
		enc(`{"alg":"ML-DSA-44"}`) + "." + enc(`{"exp":253402300800}`) + ".",
		enc(`{"alg":"HS256"}`) + "=." + enc(`{}`) + "=.",
		enc(`{"alg":"HS256"}`) + "\n." + enc(`{}`) + " .",
		enc(`{"alg":"HS256"}`) + "." + enc(`null`) + ".",
		enc(`[]`) + "." + enc(`{"a":`+strings.Repeat("[", 200)+strings.Repeat("]", 200)+`}`) + ".",
		enc(`{"alg":"HS512"}`) + "." + enc("{\"iss\":\"\xff\"}") + ".",
	} {
		for _, sel := range []uint8{0, 0x80, 0x80 | 9, 0x80 | 18, 0x80 | 27, 0x80 | 36, 0x80 | 46, 0x80 | 91} {
			f.Add(sel, c)
		}
	}
	f.Fuzz(func(t *testing.T, algSel uint8, token string) {
		sel := int(algSel & 0x7f)
		fp := fuzzParties[sel%45]
		v := vals[(sel/45)%len(vals)]
		if algSel&0x80 != 0 {
			unsigned := token
			if i := strings.LastIndex(token, "."); i >= 0 {
				unsigned = token[:i]
			}
			sig, err := fp.k.mat.Sign(fp.k.alg, []byte(unsigned))
			if err != nil {
				t.Fatalf("reference signer: %v", err)
			}
			token = unsigned + "." + jwtref.B64Encode(sig)
		}
		opts := &jwt.ValidatorOpts{ExpectedTypeHeader: clonep(v.ExpectedTyp), ExpectedIssuer: clonep(v.ExpectedIss), ExpectedAudience: clonep(v.ExpectedAud),
			IgnoreTypeHeader: v.IgnoreTyp, IgnoreIssuer: v.IgnoreIss, IgnoreAudiences: v.IgnoreAud, AllowMissingExpiration: v.AllowMissingExpiration,
			ExpectIssuedInThePast: v.ExpectIssuedInThePast, ClockSkew: v.Skew, FixedNow: v.Now}
		tv, err := jwt.NewValidator(opts)
		if err != nil {
			t.Fatalf("NewValidator: %v", err)
		}
		got, verr := fp.verify(token, tv)
		d := jwtref.Decide(token, fp.refs, v)
		ctx := fmt.Sprintf("key %s/%s token=%q %s\nreference accept=%v reason=%q silent=%v; Tink err=%v", fp.k.alg, fp.k.strategy, token, vdesc(v), d.Accept, d.Reason, d.Silent, verr)
		if verr != nil && got != nil {
			t.Fatalf("%s\nrejected but a VerifiedJWT was returned", ctx)
		}
		if verr == nil {
			// robustness oracle
			if got == nil {
				t.Fatalf("%s\nnil VerifiedJWT without error", ctx)
			}
			if !jwtref.SignatureValidLenient(token, fp.refs) {
				t.Fatalf("%s\nACCEPTED a token whose signature is not valid under the key", ctx)
			}
			payload, _, derr := jwtref.B64Decode(strings.Split(token, ".")[1])
			var signed, returned any
			if derr != nil || json.Unmarshal(payload, &signed) != nil {
				t.Fatalf("%s\nACCEPTED a token whose payload is not base64url JSON", ctx)
			}
			js, jerr := got.JSONPayload()
			if jerr != nil || json.Unmarshal(js, &returned) != nil || !jsonEqual(signed, returned) {
				t.Fatalf("%s\nreturned claims %s differ from the signed payload %s", ctx, js, payload)
			}
		}
		if d.Strict() {
			if d.Accept != (verr == nil) {
				t.Fatalf("%s\nTink and the reference disagree on a token in the strict grammar", ctx)
			}
		}
	})
}
