package c09

import (
	"encoding/json"
	"fmt"
	"sort"
	"strconv"
	"testing"
	"time"

	"pgregory.net/rapid"

	"github.com/tink-crypto/tink-go/v2/jwt"
	"github.com/tink-crypto/tink-go/v2/verifharness/internal/detrand"
	"github.com/tink-crypto/tink-go/v2/verifharness/internal/evid"
	"github.com/tink-crypto/tink-go/v2/verifharness/internal/ref/jwtref"
)

// model is a generated raw JWT: the RawJWTOptions to hand to Tink and the claims they stand for.
type model struct {
	typ    *string
	opts   *jwt.RawJWTOptions
	claims map[string]any // expected payload in encoding/json representation
}

var wholeSkews = []time.Duration{0, time.Second, 59 * time.Second, 10 * time.Minute}

// drawModel draws RawJWTOptions whose time claims are valid at `now` under `skew` (whole seconds),
// edges included: exp down to now-skew+1, nbf / iat up to now+skew.
func drawModel(rt *rapid.T, nowSec int64, skew time.Duration, iatMustHold, tame bool) model {
	m := model{opts: &jwt.RawJWTOptions{}, claims: map[string]any{}}
	sk := int64(skew / time.Second)
	if rapid.Bool().Draw(rt, "has_typ") {
		m.typ = sptr(drawString(rt, "typ"))
		m.opts.TypeHeader = sptr(*m.typ)
	}
	str := func(name string, dst **string) {
		if rapid.Bool().Draw(rt, "has_"+name) {
			s := drawString(rt, name)
			*dst = sptr(s)
			m.claims[name] = s
		}
	}
	str("iss", &m.opts.Issuer)
	str("sub", &m.opts.Subject)
	str("jti", &m.opts.JWTID)
	switch rapid.IntRange(0, 3).Draw(rt, "aud_shape") {
	case 1:
		s := drawString(rt, "aud")
		m.opts.Audience = sptr(s)
		m.claims["aud"] = s
	case 2, 3:
		n := rapid.IntRange(1, 4).Draw(rt, "aud_len")
		var list []string
		var want []any
		for i := 0; i < n; i++ {
			s := drawString(rt, fmt.Sprintf("aud[%d]", i))
			list = append(list, s)
			want = append(want, s)
		}
		m.opts.Audiences = list
		m.claims["aud"] = want
	}
	clamp := func(v int64) int64 {
		if v < jwtref.TimestampMin {
			return jwtref.TimestampMin
		}
		if v > jwtref.TimestampMax {
			return jwtref.TimestampMax
		}
		return v
	}
	at := func(name string, sec int64) *time.Time {
		t := time.Unix(sec, 0)
		if rapid.Bool().Draw(rt, name+"_utc") {
			t = t.UTC()
		}
		m.claims[name] = float64(sec)
		return &t
	}
	if rapid.IntRange(0, 4).Draw(rt, "has_exp") > 0 {
		lo := clamp(nowSec - sk + 1)
		sec := rapid.SampledFrom([]int64{lo, lo, lo + 1, clamp(nowSec + 1), clamp(nowSec + 3600), jwtref.TimestampMax, clamp(lo + rapid.Int64Range(0, 1<<31).Draw(rt, "exp_delta"))}).Draw(rt, "exp")
		m.opts.ExpiresAt = at("exp", sec)
	} else {
		m.opts.WithoutExpiration = true
	}
	past := func(name string) int64 {
		hi := clamp(nowSec + sk)
		return rapid.SampledFrom([]int64{hi, hi, clamp(hi - 1), clamp(nowSec), clamp(nowSec - 3600), 0, clamp(hi - rapid.Int64Range(0, 1<<31).Draw(rt, name+"_delta"))}).Draw(rt, name)
	}
	if rapid.Bool().Draw(rt, "has_nbf") {
		m.opts.NotBefore = at("nbf", past("nbf"))
	}
	if rapid.Bool().Draw(rt, "has_iat") {
		if iatMustHold {
			m.opts.IssuedAt = at("iat", past("iat"))
		} else {
			// without ExpectIssuedInThePast the iat value is not checked at all
			m.opts.IssuedAt = at("iat", rapid.SampledFrom([]int64{0, clamp(nowSec), clamp(nowSec + sk + 1), jwtref.TimestampMax, past("iat")}).Draw(rt, "iat_any"))
		}
	}
	n := rapid.IntRange(0, 5).Draw(rt, "custom_claims")
	if n > 0 || rapid.Bool().Draw(rt, "custom_claims_empty_map") {
		m.opts.CustomClaims = map[string]any{}
	}
	for i := 0; i < n; i++ {
		name := drawClaimName(rt, fmt.Sprintf("custom%d_name", i))
		v := drawValueT(rt, fmt.Sprintf("custom%d", i), 0, tame)
		m.claims[name] = v
		m.opts.CustomClaims[name] = v
	}
	return m
}

// addTypedNumberClaims adds custom claims whose Go value is a number type other than float64 (int,
// int64, uint32, float32, json.Number - inside an array too). RawJWTOptions does not say which Go
// types a custom claim may have; what the property fixes is that a claim which NewRawJWT accepts
// round-trips: the token carries the JSON number with that value. The values are exactly
// representable as float64 (|integers| <= 2^53, float32 widened, json.Number from float64 text), so
// "that value" is unambiguous. typed lists the names, for the fallback when NewRawJWT refuses a type.
func addTypedNumberClaims(rt *rapid.T, m *model) (typed []string) {
	n := rapid.IntRange(0, 2).Draw(rt, "typed_claims")
	for i := 0; i < n; i++ {
		name := fmt.Sprintf("typed%d_%s", i, rapid.StringMatching(`[a-z]{0,4}`).Draw(rt, fmt.Sprintf("typed%d_name", i)))
		label := fmt.Sprintf("typed%d", i)
		var val any
		var want float64
		switch kind := rapid.SampledFrom([]string{"int", "int64", "uint32", "float32", "json.Number"}).Draw(rt, label+"_type"); kind {
		case "int":
			x := int(rapid.Int64Range(-(1<<53), 1<<53).Draw(rt, label))
			if rapid.IntRange(0, 3).Draw(rt, label+"_edge") == 0 {
				x = rapid.SampledFrom([]int{0, 1, -1, 255, 256, 65536, 1 << 31, -(1 << 31), 1 << 32, 1<<53 - 1, 1 << 53, -(1 << 53)}).Draw(rt, label+"_edgeval")
			}
			val, want = x, float64(x)
		case "int64":
			x := rapid.Int64Range(-(1<<53), 1<<53).Draw(rt, label)
			if rapid.IntRange(0, 3).Draw(rt, label+"_edge") == 0 {
				x = rapid.SampledFrom([]int64{0, -1, 1 << 31, 1<<31 - 1, -(1 << 31) - 1, 1 << 32, 1700000000, 253402300799, 1 << 53, -(1 << 53)}).Draw(rt, label+"_edgeval")
			}
			val, want = x, float64(x)
		case "uint32":
			x := rapid.SampledFrom([]uint32{0, 1, 1<<31 - 1, 1 << 31, 1<<32 - 1, rapid.Uint32().Draw(rt, label)}).Draw(rt, label+"_val")
			val, want = x, float64(x)
		case "float32":
			x := rapid.SampledFrom([]float32{0, 1, -1, 0.5, -0.25, 0.1, 16777216, 16777217, 3.4028235e38, 1e-45, rapid.Float32().Draw(rt, label)}).Draw(rt, label+"_val")
			val, want = x, float64(x)
		default:
			f := rapid.SampledFrom([]float64{0, 1, -1, 12, 0.5, -0.25, 1e3, 123456789, 1700000000, 1 << 53, float64(rapid.Int64Range(-(1<<53), 1<<53).Draw(rt, label))}).Draw(rt, label+"_val")
			txt := strconv.FormatFloat(f, rapid.SampledFrom([]byte{'f', 'g', 'e'}).Draw(rt, label+"_fmt"), -1, 64)
			val, want = json.Number(txt), f
		}
		if m.opts.CustomClaims == nil {
			m.opts.CustomClaims = map[string]any{}
		}
		if rapid.IntRange(0, 3).Draw(rt, label+"_in_array") == 0 {
			m.opts.CustomClaims[name] = []any{val, "x"}
			m.claims[name] = []any{want, "x"}
		} else {
			m.opts.CustomClaims[name] = val
			m.claims[name] = want
		}
		typed = append(typed, name)
	}
	return typed
}

// matchingValidator draws a validator that must accept the model at now under skew.
func matchingValidator(rt *rapid.T, m model, now time.Time, skew time.Duration, expectIAT bool) jwtref.Validator {
	v := jwtref.Validator{Now: now, Skew: skew, ExpectIssuedInThePast: expectIAT}
	if m.typ != nil {
		if rapid.Bool().Draw(rt, "v_ignore_typ") {
			v.IgnoreTyp = true
		} else {
			v.ExpectedTyp = sptr(*m.typ)
		}
	} else {
		v.IgnoreTyp = rapid.Bool().Draw(rt, "v_ignore_typ")
	}
	if iss, ok := m.claims["iss"]; ok {
		if rapid.Bool().Draw(rt, "v_ignore_iss") {
			v.IgnoreIss = true
		} else {
			v.ExpectedIss = sptr(iss.(string))
		}
	} else {
		v.IgnoreIss = rapid.Bool().Draw(rt, "v_ignore_iss")
	}
	if aud, ok := m.claims["aud"]; ok {
		if rapid.Bool().Draw(rt, "v_ignore_aud") {
			v.IgnoreAud = true
		} else {
			switch a := aud.(type) {
			case string:
				v.ExpectedAud = sptr(a)
			case []any:
				v.ExpectedAud = sptr(a[rapid.IntRange(0, len(a)-1).Draw(rt, "v_aud_index")].(string))
			}
		}
	} else {
		v.IgnoreAud = rapid.Bool().Draw(rt, "v_ignore_aud")
	}
	if _, ok := m.claims["exp"]; !ok {
		v.AllowMissingExpiration = true
	} else {
		v.AllowMissingExpiration = rapid.Bool().Draw(rt, "v_allow_missing_exp")
	}
	return v
}

func drawNow(rt *rapid.T, minSec int64) time.Time {
	sec := rapid.SampledFrom([]int64{minSec, 1700000000, 1700000000, 2147483647, 2147483648, 4294967296, jwtref.TimestampMax - 601, rapid.Int64Range(minSec, jwtref.TimestampMax-601).Draw(rt, "now_any")}).Draw(rt, "now_sec")
	if sec < minSec {
		sec = minSec
	}
	nsec := rapid.SampledFrom([]int64{0, 0, 0, 1, 500000000, 999999999}).Draw(rt, "now_nsec")
	return time.Unix(sec, nsec)
}

// TestRoundTrip: RawJWTOptions -> SignAndEncode / ComputeMACAndEncode -> verify with a matching
// validator: accepted, every accessor equals the model, the token parts decode to exactly the
// expected header and to a payload JSON-equal to the model, and the reference accepts the token too.
func TestRoundTrip(t *testing.T) {
	check(t, func(rt *rapid.T) {
		detrand.Seed(rapid.Uint64().Draw(rt, "entropy"))
		k := drawKey(rt, "key", famAny)
		p := single(rt, k)
		skew := rapid.SampledFrom(wholeSkews).Draw(rt, "skew")
		now := drawNow(rt, 601)
		m := drawModel(rt, now.Unix(), skew, true, false)
		typed := addTypedNumberClaims(rt, &m)
		_, hasIAT := m.claims["iat"]
		expectIAT := hasIAT && rapid.Bool().Draw(rt, "v_expect_iat")
		v := matchingValidator(rt, m, now, skew, expectIAT)
		// signAndCheck signs one model on the party's (single) signer / MAC object and checks the token
		// parts, the reference's decision, Tink's verification and every accessor.
		signAndCheck := func(which string, m model, v jwtref.Validator) (string, string) {
			ctx := fmt.Sprintf("round trip with %v\n%s model typ=%s claims=%s", k, which, pstr(m.typ), jtext(m.claims))
			raw, err := jwt.NewRawJWT(m.opts)
			if err != nil && which == "first" && len(typed) > 0 {
				// the Go type of a custom claim is not part of the documented domain: take the float64 form
				evid.Add("typed_number_claims_refused", 1)
				for _, name := range typed {
					m.opts.CustomClaims[name] = m.claims[name]
				}
				raw, err = jwt.NewRawJWT(m.opts)
			}
			if err != nil {
				rt.Fatalf("%s\nNewRawJWT refuses documented options: %v", ctx, err)
			}
			token, err := p.sign(raw)
			if err != nil {
				rt.Fatalf("%s\nsigning fails: %v", ctx, err)
			}
			ctx += fmt.Sprintf("\ntoken=%q\n%s", token, vdesc(v))

			// the three parts, decoded with the strict reference decoder
			d := jwtref.Decide(token, p.refs, v)
			if !d.Accept {
				rt.Fatalf("%s\nthe reference rejects Tink's own token: %s (silent constructs %v)", ctx, d.Reason, d.Silent)
			}
			for _, s := range d.Silent {
				if s != "payload-odd-number" { // Tink may write 1e+21; everything else must be canonical
					rt.Fatalf("%s\nTink's own token contains %s", ctx, s)
				}
			}
			wantHeader := map[string]any{"alg": k.alg}
			if kid, ok := k.kid(); ok {
				wantHeader["kid"] = kid
			}
			if m.typ != nil {
				wantHeader["typ"] = *m.typ
			}
			if !jsonEqual(any(d.Header), any(wantHeader)) {
				rt.Fatalf("%s\nheader is %s, want exactly %s", ctx, jtext(d.Header), jtext(wantHeader))
			}
			if !jsonEqual(any(d.Claims), any(m.claims)) {
				rt.Fatalf("%s\npayload %q is not JSON-equal to the model", ctx, d.Payload)
			}

			got, err := p.verify(token, tinkValidator(rt, v, rapid.IntRange(0, 9).Draw(rt, "deprecated_aud_field") == 0))
			if err != nil {
				rt.Fatalf("%s\na token Tink made is REJECTED by the matching validator: %v", ctx, err)
			}
			checkVerified(rt, ctx, got, m.typ, m.claims)

			// the RawJWT itself answers the same questions before signing
			if js, err := raw.JSONPayload(); err != nil {
				rt.Fatalf("%s\nRawJWT.JSONPayload: %v", ctx, err)
			} else if v, _, perr := jwtref.ParseJSON(js); perr != nil || !jsonEqual(v, any(m.claims)) {
				rt.Fatalf("%s\nRawJWT.JSONPayload %q differs from the model (%v)", ctx, js, perr)
			}
			return token, ctx
		}
		token, ctx := signAndCheck("first", m, v)

		// A second model on the SAME signer / MAC and verifier object: the other typ presence and
		// other claims. Its header and claims must be its own (nothing carried over from the first
		// token), and the first token must verify afterwards exactly as before.
		m2 := drawModel(rt, now.Unix(), skew, true, false)
		if m.typ != nil {
			m2.typ, m2.opts.TypeHeader = nil, nil
		} else {
			ty := drawString(rt, "typ2")
			m2.typ, m2.opts.TypeHeader = sptr(ty), sptr(ty)
		}
		jti2 := "second"
		if j, ok := m.claims["jti"]; ok {
			jti2 = j.(string) + "+"
		}
		m2.opts.JWTID, m2.claims["jti"] = sptr(jti2), jti2
		_, hasIAT2 := m2.claims["iat"]
		v2 := matchingValidator(rt, m2, now, skew, hasIAT2 && rapid.Bool().Draw(rt, "v2_expect_iat"))
		_, ctx2 := signAndCheck("second (same objects)", m2, v2)
		again, err := p.verify(token, tinkValidator(rt, v, false))
		if err != nil {
			rt.Fatalf("%s\nafter signing and verifying a second token on the same objects:\n%s\nthe FIRST token is rejected: %v", ctx, ctx2, err)
		}
		checkVerified(rt, ctx+"\n(verified again after the second token)\n"+ctx2, again, m.typ, m.claims)
		evid.Add("roundtrip_second_tokens", 1)
		evid.Add("typed_number_claims", int64(len(typed)))

		kinds := map[string]bool{}
		for name, c := range m.claims {
			if !isRegistered(name) {
				kinds[kindOf(c)] = true
			}
		}
		var ks []string
		for kk := range kinds {
			ks = append(ks, kk)
		}
		sort.Strings(ks)
		evid.Add("roundtrip_tokens", 1)
		edge := false
		if e, ok := m.claims["exp"]; ok && int64(e.(float64)) == now.Unix()-int64(skew/time.Second)+1 {
			edge = true
			evid.Add("roundtrip_exp_at_edge", 1)
		}
		if n, ok := m.claims["nbf"]; ok && int64(n.(float64)) == now.Unix()+int64(skew/time.Second) {
			edge = true
			evid.Add("roundtrip_nbf_at_edge", 1)
		}
		nontrivial := len(m.claims) > 0 || m.typ != nil
		fp := evid.NewH().S(k.String()).S(pstr(m.typ)).S(jtext(m.claims)).S(vdesc(v)).Sum()
		evid.Case(fmt.Sprintf("roundtrip/%s/edge=%v/custom=%d", k.class(), edge, len(ks)), nontrivial, fp, func() any {
			return map[string]any{"key": k.String(), "typ": pstr(m.typ), "claims": jtext(m.claims), "validator": vdesc(v), "token": token}
		})
	})
}
