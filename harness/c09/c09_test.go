// Package c09 decides property C09 (JWT): VerifyAndDecode / VerifyMACAndDecode accepts a compact
// token iff the independent decision procedure internal/ref/jwtref accepts it (signature or MAC
// valid under an enabled key, header names that key's algorithm, no crit, kid rule of the key,
// validator rules incl. exact expiry / not-before boundaries and clock skew), the returned claims
// are the signed payload, SignAndEncode / ComputeMACAndEncode round-trip every claim and header,
// and JWK export / import keeps the verification behaviour and refuses private keys.
//
// Two oracles are used and every case says which one it got:
//
//   - decision equality (both directions) with jwtref.Decide plus claim equality on acceptance,
//     for tokens whose decision the property text pins down;
//   - the robustness oracle for tokens containing a construct the property is silent about
//     (Decision.Silent: non-canonical base64 trailing bits, duplicate JSON members, lone
//     surrogates, numbers beyond the float64 range, deep nesting; and, when every stated rule
//     holds, a fractional NumericDate whose floor and ceiling lie on different sides of a bound, a
//     byte order mark in front of the JSON, a non-string typ under IgnoreTyp): no panic, and IF Tink
//     accepts then the signature is genuine under the reference and JSONPayload parsed by
//     encoding/json equals the signed payload parsed by encoding/json.
//
// Numbers in exponent form, with more than 15 digits, beyond 2^53 or "-0" do not weaken the
// decision: in a custom claim only the comparison of that claim's returned value is loosened
// (Decision.OddClaims), in a time claim the claim's interval is widened by a second.
package c09

import (
	"bytes"
	"crypto/ecdsa"
	"crypto/rand"
	"crypto/rsa"
	"encoding/hex"
	"encoding/json"
	"fmt"
	"math"
	"math/big"
	"sort"
	"strings"
	"sync"
	"testing"
	"time"

	"pgregory.net/rapid"

	"github.com/tink-crypto/tink-go/v2/jwt"
	"github.com/tink-crypto/tink-go/v2/jwt/jwtecdsa"
	"github.com/tink-crypto/tink-go/v2/jwt/jwthmac"
	"github.com/tink-crypto/tink-go/v2/jwt/jwtmldsa"
	"github.com/tink-crypto/tink-go/v2/jwt/jwtrsassapkcs1"
	"github.com/tink-crypto/tink-go/v2/jwt/jwtrsassapss"
	"github.com/tink-crypto/tink-go/v2/key"
	"github.com/tink-crypto/tink-go/v2/keyset"
	"github.com/tink-crypto/tink-go/v2/verifharness/internal/detrand"
	"github.com/tink-crypto/tink-go/v2/verifharness/internal/evid"
	"github.com/tink-crypto/tink-go/v2/verifharness/internal/gen"
	"github.com/tink-crypto/tink-go/v2/verifharness/internal/ref/jwtref"
	"github.com/tink-crypto/tink-go/v2/verifharness/internal/ref/mldsaref"
	"github.com/tink-crypto/tink-go/v2/verifharness/internal/tk"
)

func TestMain(m *testing.M) { evid.Main(m) }

// ---------------------------------------------------------------------------------------------
// RSA keys: generated once per process from a fixed seed (2 x 2048, 1 x 3072 bit, e = 65537), plus
// two committed keys with 2049- and 2055-bit moduli.

const rsaPoolSeed = 0xC09C09C09

var (
	rsaOnce sync.Once
	rsaPool []*rsa.PrivateKey
)

func rsaKeys() []*rsa.PrivateKey {
	rsaOnce.Do(func() {
		detrand.Seed(rsaPoolSeed)
		for _, bits := range []int{2048, 2048, 3072} {
			k, err := rsa.GenerateKey(rand.Reader, bits)
			if err != nil {
				panic(err)
			}
			if k.E != 65537 || k.N.BitLen() != bits {
				panic("unexpected RSA key shape")
			}
			rsaPool = append(rsaPool, k)
		}
		// indices 3 and 4: moduli of 2049 and 2055 bits (see rsaodd_test.go)
		for _, o := range oddRSAKeys {
			h := func(s string) *big.Int {
				v, ok := new(big.Int).SetString(s, 16)
				if !ok {
					panic("c09: bad hex in oddRSAKeys")
				}
				return v
			}
			k := &rsa.PrivateKey{PublicKey: rsa.PublicKey{N: h(o.n), E: 65537}, D: h(o.d), Primes: []*big.Int{h(o.p), h(o.q)}}
			if k.N.BitLen() != o.bits || new(big.Int).Mul(k.Primes[0], k.Primes[1]).Cmp(k.N) != 0 {
				panic("c09: inconsistent entry in oddRSAKeys")
			}
			if err := k.Validate(); err != nil {
				panic("c09: oddRSAKeys: " + err.Error())
			}
			k.Precompute()
			rsaPool = append(rsaPool, k)
		}
	})
	return rsaPool
}

// check warms the RSA pool (so that no case ever re-seeds the randomness in its middle) and runs
// the property.
func check(t *testing.T, prop func(rt *rapid.T)) {
	rsaKeys()
	rapid.Check(t, prop)
}

// ---------------------------------------------------------------------------------------------
// Keys.

const (
	stTink    = "TINK"    // Base64EncodedKeyIDAsKID: the key has an ID requirement
	stCustom  = "CUSTOM"  // CustomKID
	stIgnored = "IGNORED" // IgnoredKID
)

var strategies = []string{stTink, stCustom, stIgnored}

var algsByFamily = map[string][]string{
	"HS":     {"HS256", "HS384", "HS512"},
	"ES":     {"ES256", "ES384", "ES512"},
	"RS":     {"RS256", "RS384", "RS512"},
	"PS":     {"PS256", "PS384", "PS512"},
	"ML-DSA": {"ML-DSA-44", "ML-DSA-65", "ML-DSA-87"},
}

// jkey is one JWT key: the drawn material, the Tink key objects built from it and the reference view.
type jkey struct {
	fam, alg  string
	strategy  string
	id        uint32 // ID requirement (stTink)
	customKID string // stCustom
	mat       jwtref.Material
	matDesc   string // material in hex, for failure messages
	// material in the form the Tink constructors take
	hmacKey   []byte
	ecScalar  []byte
	ecPoint   []byte
	rsaIndex  int
	mldsaSeed []byte

	priv key.Key // private key, or the symmetric key
	pub  key.Key // public key (nil for HS)
}

func (k *jkey) kid() (string, bool) {
	switch k.strategy {
	case stTink:
		return jwtref.KeyIDKid(k.id), true
	case stCustom:
		return k.customKID, true
	}
	return "", false
}

func (k *jkey) rule() jwtref.KidRule {
	switch k.strategy {
	case stTink:
		return jwtref.KidRequired
	case stCustom:
		return jwtref.KidCustom
	}
	return jwtref.KidIgnored
}

func (k *jkey) ref(enabled bool) jwtref.Key {
	kid, _ := k.kid()
	return jwtref.NewKey(k.alg, k.mat, k.rule(), kid, enabled)
}

func (k *jkey) String() string {
	s := fmt.Sprintf("key{alg=%s kid-strategy=%s", k.alg, k.strategy)
	switch k.strategy {
	case stTink:
		s += fmt.Sprintf(" id=%d(0x%08x) kid=%q", k.id, k.id, jwtref.KeyIDKid(k.id))
	case stCustom:
		s += fmt.Sprintf(" custom-kid=%q", k.customKID)
	}
	return s + " " + k.matDesc + "}"
}

func (k *jkey) class() string { return k.alg + "/" + k.strategy }

// drawMaterial draws the algorithm and the key material of a key of one of the families.
func drawMaterial(rt *rapid.T, label string, families []string) *jkey {
	fam := rapid.SampledFrom(families).Draw(rt, label+"_family")
	return drawMaterialFor(rt, label, fam, rapid.SampledFrom(algsByFamily[fam]).Draw(rt, label+"_alg"))
}

// drawMaterialFor draws key material for one algorithm.
func drawMaterialFor(rt *rapid.T, label, fam, alg string) *jkey {
	k := &jkey{fam: fam, alg: alg}
	switch k.fam {
	case "HS":
		min := map[string]int{"HS256": 32, "HS384": 48, "HS512": 64}[k.alg]
		size := min + rapid.SampledFrom([]int{0, 0, 0, 1, 16, 32, 64, 72}).Draw(rt, label+"_extra_key_bytes")
		k.hmacKey = gen.BytesN(rt, label+"_hmac_key", size)
		k.mat = jwtref.Material{HMACKey: k.hmacKey}
		k.matDesc = "hmac-key=" + hex.EncodeToString(k.hmacKey)
	case "ES":
		curve, size := jwtref.CurveOf(k.alg)
		raw := gen.BytesN(rt, label+"_scalar", size)
		n1 := new(big.Int).Sub(curve.Params().N, big.NewInt(1))
		v := new(big.Int).SetBytes(raw)
		v.Mod(v, n1).Add(v, big.NewInt(1)) // [1, n-1]
		k.ecScalar = v.FillBytes(make([]byte, size))
		if sc, ok := gen.SpecialECScalar(rt, label+"_scalar", size, 8); ok {
			k.ecScalar = sc // a coordinate starting with 0x00 / 0x02 / 0x03 / 0x04 / 0x80 / 0xff (JWK x, y encodings)
		}
		priv, err := ecdsa.ParseRawPrivateKey(curve, k.ecScalar)
		if err != nil {
			rt.Fatalf("harness: scalar %x refused for %s: %v", k.ecScalar, k.alg, err)
		}
		k.ecPoint, err = priv.PublicKey.Bytes()
		if err != nil {
			rt.Fatalf("harness: public point: %v", err)
		}
		k.mat = jwtref.Material{EC: priv}
		k.matDesc = "ec-scalar=" + hex.EncodeToString(k.ecScalar)
	case "RS", "PS":
		pool := rsaKeys()
		k.rsaIndex = rapid.SampledFrom([]int{0, 0, 0, 1, 1, 1, 2, 2, 3, 4}).Draw(rt, label+"_rsa_pool_index")
		k.mat = jwtref.Material{RSA: pool[k.rsaIndex]}
		origin := fmt.Sprintf("seed %#x", rsaPoolSeed)
		if k.rsaIndex >= 3 {
			origin = "committed key, rsaodd_test.go"
		}
		k.matDesc = fmt.Sprintf("rsa-pool[%d](%s, %d bit) n=%x d=%x", k.rsaIndex, origin, pool[k.rsaIndex].N.BitLen(), pool[k.rsaIndex].N, pool[k.rsaIndex].D)
	case "ML-DSA":
		k.mldsaSeed = gen.BytesN(rt, label+"_mldsa_seed", 32)
		pk, sk := mldsaref.KeyGenInternal(jwtref.MLDSAParams(k.alg), [32]byte(k.mldsaSeed))
		k.mat = jwtref.Material{MLDSAPublic: pk, MLDSAPrivate: sk}
		k.matDesc = "mldsa-seed=" + hex.EncodeToString(k.mldsaSeed)
	}
	return k
}

func drawCustomKID(rt *rapid.T, label string) string {
	switch c := rapid.IntRange(0, 9).Draw(rt, label+"_kind"); {
	case c == 0:
		return ""
	case c < 6:
		return rapid.StringMatching(`[A-Za-z0-9_.\-]{1,20}`).Draw(rt, label)
	case c == 6:
		// looks like a key-ID-derived kid
		return jwtref.KeyIDKid(gen.KeyID(rt, label+"_id"))
	default:
		return drawString(rt, label)
	}
}

// withStrategy returns a copy of k (same material) under another kid strategy, with the Tink keys built.
func (k *jkey) withStrategy(strategy string, id uint32, custom string) (*jkey, error) {
	c := *k
	c.strategy, c.id, c.customKID = strategy, 0, ""
	switch strategy {
	case stTink:
		c.id = id
	case stCustom:
		c.customKID = custom
	}
	if err := c.build(); err != nil {
		return nil, err
	}
	return &c, nil
}

// build constructs the Tink key objects from the material.
func (k *jkey) build() error {
	hasCustom := k.strategy == stCustom
	switch k.fam {
	case "HS":
		ks := map[string]jwthmac.KIDStrategy{stTink: jwthmac.Base64EncodedKeyIDAsKID, stCustom: jwthmac.CustomKID, stIgnored: jwthmac.IgnoredKID}[k.strategy]
		alg := map[string]jwthmac.Algorithm{"HS256": jwthmac.HS256, "HS384": jwthmac.HS384, "HS512": jwthmac.HS512}[k.alg]
		p, err := jwthmac.NewParameters(len(k.hmacKey), ks, alg)
		if err != nil {
			return err
		}
		key, err := jwthmac.NewKey(jwthmac.KeyOpts{KeyBytes: tk.Secret(k.hmacKey), IDRequirement: k.id, CustomKID: k.customKID, HasCustomKID: hasCustom, Parameters: p})
		if err != nil {
			return err
		}
		k.priv, k.pub = key, nil
	case "ES":
		ks := map[string]jwtecdsa.KIDStrategy{stTink: jwtecdsa.Base64EncodedKeyIDAsKID, stCustom: jwtecdsa.CustomKID, stIgnored: jwtecdsa.IgnoredKID}[k.strategy]
		alg := map[string]jwtecdsa.Algorithm{"ES256": jwtecdsa.ES256, "ES384": jwtecdsa.ES384, "ES512": jwtecdsa.ES512}[k.alg]
		p, err := jwtecdsa.NewParameters(ks, alg)
		if err != nil {
			return err
		}
		pub, err := jwtecdsa.NewPublicKey(jwtecdsa.PublicKeyOpts{PublicPoint: bytes.Clone(k.ecPoint), IDRequirement: k.id, CustomKID: k.customKID, HasCustomKID: hasCustom, Parameters: p})
		if err != nil {
			return err
		}
		priv, err := jwtecdsa.NewPrivateKeyFromPublicKey(tk.Secret(k.ecScalar), pub)
		if err != nil {
			return err
		}
		k.priv, k.pub = priv, pub
	case "RS":
		r := rsaKeys()[k.rsaIndex]
		ks := map[string]jwtrsassapkcs1.KIDStrategy{stTink: jwtrsassapkcs1.Base64EncodedKeyIDAsKID, stCustom: jwtrsassapkcs1.CustomKID, stIgnored: jwtrsassapkcs1.IgnoredKID}[k.strategy]
		alg := map[string]jwtrsassapkcs1.Algorithm{"RS256": jwtrsassapkcs1.RS256, "RS384": jwtrsassapkcs1.RS384, "RS512": jwtrsassapkcs1.RS512}[k.alg]
		p, err := jwtrsassapkcs1.NewParameters(jwtrsassapkcs1.ParametersOpts{ModulusSizeInBits: r.N.BitLen(), PublicExponent: r.E, Algorithm: alg, KidStrategy: ks})
		if err != nil {
			return err
		}
		pub, err := jwtrsassapkcs1.NewPublicKey(jwtrsassapkcs1.PublicKeyOpts{Modulus: r.N.Bytes(), IDRequirement: k.id, CustomKID: k.customKID, HasCustomKID: hasCustom, Parameters: p})
		if err != nil {
			return err
		}
		priv, err := jwtrsassapkcs1.NewPrivateKey(jwtrsassapkcs1.PrivateKeyOpts{PublicKey: pub, D: tk.Secret(r.D.Bytes()), P: tk.Secret(r.Primes[0].Bytes()), Q: tk.Secret(r.Primes[1].Bytes())})
		if err != nil {
			return err
		}
		k.priv, k.pub = priv, pub
	case "PS":
		r := rsaKeys()[k.rsaIndex]
		ks := map[string]jwtrsassapss.KIDStrategy{stTink: jwtrsassapss.Base64EncodedKeyIDAsKID, stCustom: jwtrsassapss.CustomKID, stIgnored: jwtrsassapss.IgnoredKID}[k.strategy]
		alg := map[string]jwtrsassapss.Algorithm{"PS256": jwtrsassapss.PS256, "PS384": jwtrsassapss.PS384, "PS512": jwtrsassapss.PS512}[k.alg]
		p, err := jwtrsassapss.NewParameters(jwtrsassapss.ParametersOpts{ModulusSizeInBits: r.N.BitLen(), PublicExponent: r.E, Algorithm: alg, KidStrategy: ks})
		if err != nil {
			return err
		}
		pub, err := jwtrsassapss.NewPublicKey(jwtrsassapss.PublicKeyOpts{Modulus: r.N.Bytes(), IDRequirement: k.id, CustomKID: k.customKID, HasCustomKID: hasCustom, Parameters: p})
		if err != nil {
			return err
		}
		priv, err := jwtrsassapss.NewPrivateKey(jwtrsassapss.PrivateKeyOpts{PublicKey: pub, D: tk.Secret(r.D.Bytes()), P: tk.Secret(r.Primes[0].Bytes()), Q: tk.Secret(r.Primes[1].Bytes())})
		if err != nil {
			return err
		}
		k.priv, k.pub = priv, pub
	case "ML-DSA":
		ks := map[string]jwtmldsa.KIDStrategy{stTink: jwtmldsa.Base64EncodedKeyIDAsKID, stCustom: jwtmldsa.CustomKID, stIgnored: jwtmldsa.IgnoredKID}[k.strategy]
		alg := map[string]jwtmldsa.Algorithm{"ML-DSA-44": jwtmldsa.MLDSA44, "ML-DSA-65": jwtmldsa.MLDSA65, "ML-DSA-87": jwtmldsa.MLDSA87}[k.alg]
		p, err := jwtmldsa.NewParameters(ks, alg)
		if err != nil {
			return err
		}
		pub, err := jwtmldsa.NewPublicKey(jwtmldsa.PublicKeyOpts{KeyBytes: bytes.Clone(k.mat.MLDSAPublic), IDRequirement: k.id, CustomKID: k.customKID, HasCustomKID: hasCustom, Parameters: p})
		if err != nil {
			return err
		}
		priv, err := jwtmldsa.NewPrivateKeyFromPublicKey(tk.Secret(k.mldsaSeed), pub)
		if err != nil {
			return err
		}
		k.priv, k.pub = priv, pub
	default:
		return fmt.Errorf("unknown family %q", k.fam)
	}
	return nil
}

var (
	famMAC = []string{"HS"}
	// ES is cheap, RSA and ML-DSA signing cost milliseconds: weight by repetition
	famSig = []string{"ES", "ES", "ES", "RS", "PS", "ML-DSA"}
	famAny = []string{"HS", "HS", "ES", "ES", "ES", "RS", "PS", "ML-DSA"}
	famJWK = []string{"ES", "ES", "ES", "RS", "PS"}
)

// drawKey draws a complete key (material, kid strategy, Tink objects).
func drawKey(rt *rapid.T, label string, families []string) *jkey {
	k := drawMaterial(rt, label, families)
	k.strategy = rapid.SampledFrom(strategies).Draw(rt, label+"_kid_strategy")
	switch k.strategy {
	case stTink:
		k.id = gen.KeyID(rt, label+"_id")
	case stCustom:
		k.customKID = drawCustomKID(rt, label+"_custom_kid")
	}
	if err := k.build(); err != nil {
		rt.Fatalf("the documented constructors refuse %v: %v", k, err)
	}
	return k
}

// entry is one keyset member.
type entry struct {
	k       *jkey
	enabled bool
	primary bool
}

// buildHandles builds the private (or symmetric) keyset handle and, for signature keysets, the
// public one, in the given order. It returns nil handles when a key's ID requirement is an ID the
// keyset already uses (an earlier ID requirement, or the random ID the manager gave to an earlier key
// without one): that is known from the IDs handed out so far, before AddKey is asked.
func buildHandles(rt *rapid.T, entries []entry) (priv, pub *keyset.Handle) {
	m := keyset.NewManager()
	ids := make([]uint32, len(entries))
	used := map[uint32]bool{}
	for i, e := range entries {
		if req, has := e.k.priv.IDRequirement(); has && used[req] {
			evid.Add("keyset_id_requirement_already_in_use", 1)
			return nil, nil
		}
		id, err := m.AddKey(e.k.priv)
		if err != nil {
			rt.Fatalf("AddKey(%v) to a keyset with the IDs %v: %v", e.k, ids[:i], err)
		}
		ids[i] = id
		used[id] = true
	}
	for i, e := range entries {
		if e.primary {
			if err := m.SetPrimary(ids[i]); err != nil {
				rt.Fatalf("SetPrimary: %v", err)
			}
		}
	}
	for i, e := range entries {
		if !e.enabled {
			if err := m.Disable(ids[i]); err != nil {
				rt.Fatalf("Disable: %v", err)
			}
		}
	}
	h, err := m.Handle()
	if err != nil {
		rt.Fatalf("Handle: %v", err)
	}
	if entries[0].k.fam == "HS" {
		return h, nil
	}
	p, err := h.Public()
	if err != nil {
		rt.Fatalf("Public: %v", err)
	}
	return h, p
}

func refKeys(entries []entry) []jwtref.Key {
	out := make([]jwtref.Key, len(entries))
	for i, e := range entries {
		out[i] = e.k.ref(e.enabled)
	}
	return out
}

func describe(entries []entry) string {
	var sb strings.Builder
	for i, e := range entries {
		fmt.Fprintf(&sb, "\n  [%d] enabled=%v primary=%v %v", i, e.enabled, e.primary, e.k)
	}
	return sb.String()
}

// party is a keyset with the Tink primitives made from it.
type party struct {
	entries []entry
	refs    []jwtref.Key
	sign    func(*jwt.RawJWT) (string, error)
	verify  func(string, *jwt.Validator) (*jwt.VerifiedJWT, error)
	privH   *keyset.Handle
	pubH    *keyset.Handle
}

// newParty builds the handles and primitives; nil when key IDs collided.
func newParty(rt *rapid.T, entries []entry) *party {
	priv, pub := buildHandles(rt, entries)
	if priv == nil {
		return nil
	}
	p := &party{entries: entries, refs: refKeys(entries), privH: priv, pubH: pub}
	if entries[0].k.fam == "HS" {
		m, err := jwt.NewMAC(priv)
		if err != nil {
			rt.Fatalf("jwt.NewMAC:%s: %v", describe(entries), err)
		}
		p.sign, p.verify = m.ComputeMACAndEncode, m.VerifyMACAndDecode
		return p
	}
	s, err := jwt.NewSigner(priv)
	if err != nil {
		rt.Fatalf("jwt.NewSigner:%s: %v", describe(entries), err)
	}
	v, err := jwt.NewVerifier(pub)
	if err != nil {
		rt.Fatalf("jwt.NewVerifier:%s: %v", describe(entries), err)
	}
	p.sign, p.verify = s.SignAndEncode, v.VerifyAndDecode
	return p
}

func single(rt *rapid.T, k *jkey) *party {
	p := newParty(rt, []entry{{k: k, enabled: true, primary: true}})
	if p == nil {
		rt.Fatalf("single-key keyset could not be built for %v", k)
	}
	return p
}

// ---------------------------------------------------------------------------------------------
// Strings, JSON values and JSON text.

var specialStrings = []string{"", " ", "a", "JWT", "\u0000", "\"\\/\b\f\n\r\t", "  ", "\U0001F600", "\U0010FFFF", "<>&'", "�", "￿", "é", "é", "null", "true", "0", "ＡＢ", "\u007f\u0080", "𝒳𝒴", "a.b.c", "="}

func drawString(rt *rapid.T, label string) string {
	switch k := rapid.IntRange(0, 9).Draw(rt, label+"_skind"); {
	case k < 3:
		return rapid.SampledFrom(specialStrings).Draw(rt, label)
	case k < 6:
		return rapid.StringMatching(`[a-zA-Z0-9:/._\-]{1,16}`).Draw(rt, label)
	default:
		return rapid.StringN(0, 12, 40).Draw(rt, label)
	}
}

var registered = map[string]bool{"iss": true, "sub": true, "aud": true, "exp": true, "nbf": true, "iat": true, "jti": true}

var specialNames = []string{"", "typ", "alg", "kid", "crit", "EXP", "Iss", "exp ", " iss", "aud\u0000", "http://example.com/is_root", "a.b", "\U0001F600", "claim"}

func drawClaimName(rt *rapid.T, label string) string {
	var s string
	switch k := rapid.IntRange(0, 9).Draw(rt, label+"_nkind"); {
	case k < 3:
		s = rapid.SampledFrom(specialNames).Draw(rt, label)
	case k < 8:
		s = rapid.StringMatching(`[a-z_]{1,8}`).Draw(rt, label)
	default:
		s = drawString(rt, label)
	}
	if registered[s] {
		s += "_"
	}
	return s
}

// drawValue draws a JSON value as Go data (nil, bool, float64, string, []any, map[string]any).
func drawValue(rt *rapid.T, label string, depth int) any { return drawValueT(rt, label, depth, false) }

// drawTameValue is drawValue restricted to numbers every JSON parser reads alike (at most 15
// significant digits, no exponent when written): used for hand-written payloads whose decision
// must stay binding.
func drawTameValue(rt *rapid.T, label string, depth int) any {
	return drawValueT(rt, label, depth, true)
}

func drawValueT(rt *rapid.T, label string, depth int, tame bool) any {
	k := rapid.IntRange(0, 9).Draw(rt, label+"_vkind")
	if depth >= 3 && k >= 7 {
		k -= 6
	}
	if tame && (k == 2 || k == 3 || k == 4) {
		switch k {
		case 2:
			return float64(rapid.Int64Range(-999999999999999, 999999999999999).Draw(rt, label+"_int"))
		case 3:
			return rapid.SampledFrom([]float64{0, 1, -1, 0.5, -0.25, 123456.789, 1700000000, 253402300799}).Draw(rt, label+"_float_special")
		default:
			return float64(rapid.Int64Range(-1e9, 1e9).Draw(rt, label+"_eighths")) / 8
		}
	}
	switch k {
	case 0:
		return nil
	case 1:
		return rapid.Bool().Draw(rt, label+"_bool")
	case 2:
		return float64(rapid.Int64Range(-(1<<53), 1<<53).Draw(rt, label+"_int"))
	case 3:
		return rapid.SampledFrom([]float64{0, 1, -1, 0.5, -0.25, 1e-7, 123456.789, 1 << 53, -(1 << 53), 1e21, 1e300, 5e-324, 1.7976931348623157e308, 3.141592653589793, 253402300799, 1e15 + 0.5}).Draw(rt, label+"_float_special")
	case 4:
		return rapid.Float64().Draw(rt, label+"_float")
	case 5, 6:
		return drawString(rt, label+"_str")
	case 7, 8:
		n := rapid.IntRange(0, 3).Draw(rt, label+"_alen")
		a := make([]any, n)
		for i := range a {
			a[i] = drawValueT(rt, fmt.Sprintf("%s[%d]", label, i), depth+1, tame)
		}
		return a
	default:
		n := rapid.IntRange(0, 3).Draw(rt, label+"_olen")
		m := map[string]any{}
		for i := 0; i < n; i++ {
			m[drawString(rt, fmt.Sprintf("%s.name%d", label, i))] = drawValueT(rt, fmt.Sprintf("%s.member%d", label, i), depth+1, tame)
		}
		return m
	}
}

func kindOf(v any) string {
	switch v.(type) {
	case nil:
		return "null"
	case bool:
		return "bool"
	case float64:
		return "number"
	case string:
		return "string"
	case []any:
		return "array"
	case map[string]any:
		return "object"
	}
	return fmt.Sprintf("%T", v)
}

// jsonEqual compares two JSON values in the Go representation of encoding/json.
func jsonEqual(a, b any) bool {
	switch x := a.(type) {
	case nil:
		return b == nil
	case bool:
		y, ok := b.(bool)
		return ok && x == y
	case float64:
		y, ok := b.(float64)
		return ok && x == y
	case string:
		y, ok := b.(string)
		return ok && x == y
	case []any:
		y, ok := b.([]any)
		if !ok || len(x) != len(y) {
			return false
		}
		for i := range x {
			if !jsonEqual(x[i], y[i]) {
				return false
			}
		}
		return true
	case map[string]any:
		y, ok := b.(map[string]any)
		if !ok || len(x) != len(y) {
			return false
		}
		for k, v := range x {
			w, has := y[k]
			if !has || !jsonEqual(v, w) {
				return false
			}
		}
		return true
	}
	return false
}

// jstr writes a JSON string literal.
func jstr(s string) string {
	b, err := json.Marshal(s)
	if err != nil {
		panic(err)
	}
	return string(b)
}

// jtext writes a Go JSON value as text (object members sorted by name).
func jtext(v any) string {
	switch x := v.(type) {
	case []any:
		parts := make([]string, len(x))
		for i := range x {
			parts[i] = jtext(x[i])
		}
		return "[" + strings.Join(parts, ",") + "]"
	case map[string]any:
		names := make([]string, 0, len(x))
		for k := range x {
			names = append(names, k)
		}
		sort.Strings(names)
		parts := make([]string, len(names))
		for i, k := range names {
			parts[i] = jstr(k) + ":" + jtext(x[k])
		}
		return "{" + strings.Join(parts, ",") + "}"
	case string:
		return jstr(x)
	}
	b, err := json.Marshal(v)
	if err != nil {
		panic(err)
	}
	return string(b)
}

// member is one object member with its value already written as JSON text.
type member struct{ name, raw string }

func object(ms []member) string {
	parts := make([]string, len(ms))
	for i, m := range ms {
		parts[i] = jstr(m.name) + ":" + m.raw
	}
	return "{" + strings.Join(parts, ",") + "}"
}

// makeToken signs header.payload (given as JSON text) with the reference signer under algorithm
// signAlg of key k.
func makeToken(rt *rapid.T, k *jkey, signAlg, header, payload string) string {
	return signParts(rt, k, signAlg, jwtref.B64Encode([]byte(header)), jwtref.B64Encode([]byte(payload)))
}

// signParts signs the given ASCII parts as they are.
func signParts(rt *rapid.T, k *jkey, signAlg, h64, p64 string) string {
	unsigned := h64 + "." + p64
	sig, err := k.mat.Sign(signAlg, []byte(unsigned))
	if err != nil {
		rt.Fatalf("harness: reference signer %s with %v: %v", signAlg, k, err)
	}
	return unsigned + "." + jwtref.B64Encode(sig)
}

// goodHeader is the header SignAndEncode would write for k (members in a fixed order).
func goodHeader(k *jkey, typ *string) []member {
	ms := []member{{"alg", jstr(k.alg)}}
	if kid, ok := k.kid(); ok {
		ms = append(ms, member{"kid", jstr(kid)})
	}
	if typ != nil {
		ms = append(ms, member{"typ", jstr(*typ)})
	}
	return ms
}

// ---------------------------------------------------------------------------------------------
// Validators.

func sptr(s string) *string { return &s }

func pstr(p *string) string {
	if p == nil {
		return "<nil>"
	}
	return fmt.Sprintf("%q", *p)
}

func vdesc(v jwtref.Validator) string {
	return fmt.Sprintf("validator{now=%d.%09d skew=%v expectedTyp=%s ignoreTyp=%v expectedIss=%s ignoreIss=%v expectedAud=%s ignoreAud=%v allowMissingExp=%v expectIssuedInThePast=%v}",
		v.Now.Unix(), v.Now.Nanosecond(), v.Skew, pstr(v.ExpectedTyp), v.IgnoreTyp, pstr(v.ExpectedIss), v.IgnoreIss, pstr(v.ExpectedAud), v.IgnoreAud, v.AllowMissingExpiration, v.ExpectIssuedInThePast)
}

func clonep(p *string) *string {
	if p == nil {
		return nil
	}
	c := *p
	return &c
}

// tinkValidator builds the jwt.Validator for a reference validator spec.
func tinkValidator(rt *rapid.T, v jwtref.Validator, deprecatedAudField bool) *jwt.Validator {
	opts := &jwt.ValidatorOpts{
		ExpectedTypeHeader:     clonep(v.ExpectedTyp),
		ExpectedIssuer:         clonep(v.ExpectedIss),
		IgnoreTypeHeader:       v.IgnoreTyp,
		IgnoreAudiences:        v.IgnoreAud,
		IgnoreIssuer:           v.IgnoreIss,
		AllowMissingExpiration: v.AllowMissingExpiration,
		ExpectIssuedInThePast:  v.ExpectIssuedInThePast,
		ClockSkew:              v.Skew,
		FixedNow:               v.Now,
	}
	if deprecatedAudField {
		opts.ExpectedAudiences = clonep(v.ExpectedAud)
	} else {
		opts.ExpectedAudience = clonep(v.ExpectedAud)
	}
	val, err := jwt.NewValidator(opts)
	if err != nil {
		rt.Fatalf("NewValidator refuses %s: %v", vdesc(v), err)
	}
	return val
}

// ---------------------------------------------------------------------------------------------
// Oracles.

func isRegistered(name string) bool { return registered[name] }

// checkVerified compares EVERY accessor of a VerifiedJWT with the expected typ header and claims.
func checkVerified(rt *rapid.T, ctx string, v *jwt.VerifiedJWT, typ *string, claims map[string]any) {
	checkVerifiedOdd(rt, ctx, v, typ, claims, nil)
}

// looseNumber: two readings of one JSON number text by two parsers (the same float64, or neighbours).
func looseNumber(a, b float64) bool {
	if a == b {
		return true
	}
	m := math.Max(math.Abs(a), math.Abs(b))
	return m < 1e-300 || math.Abs(a-b) <= m/(1<<50)
}

// looseEqual is jsonEqual with looseNumber for numbers.
func looseEqual(a, b any) bool {
	switch x := a.(type) {
	case float64:
		y, ok := b.(float64)
		return ok && looseNumber(x, y)
	case []any:
		y, ok := b.([]any)
		if !ok || len(x) != len(y) {
			return false
		}
		for i := range x {
			if !looseEqual(x[i], y[i]) {
				return false
			}
		}
		return true
	case map[string]any:
		y, ok := b.(map[string]any)
		if !ok || len(x) != len(y) {
			return false
		}
		for k, v := range x {
			w, has := y[k]
			if !has || !looseEqual(v, w) {
				return false
			}
		}
		return true
	}
	return jsonEqual(a, b)
}

// checkVerifiedOdd is checkVerified for a payload in which the members named in odd hold a number
// that two JSON parsers may read differently (jwtref.Decision.OddClaims): kind, presence and
// structure of such a claim are compared as always, its numbers only up to neighbouring float64
// values. A time claim with a fraction of a second may come back rounded either way (the property
// does not say how a NumericDate becomes a time.Time); the JSON payload has to carry the exact value.
func checkVerifiedOdd(rt *rapid.T, ctx string, v *jwt.VerifiedJWT, typ *string, claims map[string]any, odd map[string]bool) {
	fail := func(format string, a ...any) {
		rt.Fatalf("%s\nVerifiedJWT differs from the signed token: %s", ctx, fmt.Sprintf(format, a...))
	}
	if v == nil {
		fail("nil VerifiedJWT without error")
	}
	// typ
	if v.HasTypeHeader() != (typ != nil) {
		fail("HasTypeHeader=%v, want %v", v.HasTypeHeader(), typ != nil)
	}
	if got, err := v.TypeHeader(); typ != nil && (err != nil || got != *typ) {
		fail("TypeHeader=%q,%v want %q", got, err, *typ)
	} else if typ == nil && err == nil {
		fail("TypeHeader succeeds (%q) on a token without typ", got)
	}
	// string claims
	for _, c := range []struct {
		name string
		has  func() bool
		get  func() (string, error)
	}{{"iss", v.HasIssuer, v.Issuer}, {"sub", v.HasSubject, v.Subject}, {"jti", v.HasJWTID, v.JWTID}} {
		want, present := claims[c.name]
		if c.has() != present {
			fail("Has(%s)=%v, want %v", c.name, c.has(), present)
		}
		got, err := c.get()
		if present && (err != nil || got != want.(string)) {
			fail("%s=%q,%v want %q", c.name, got, err, want)
		}
		if !present && err == nil {
			fail("%s accessor succeeds (%q) although the claim is absent", c.name, got)
		}
	}
	// audiences
	aud, hasAud := claims["aud"]
	if v.HasAudiences() != hasAud {
		fail("HasAudiences=%v, want %v", v.HasAudiences(), hasAud)
	}
	gotAud, err := v.Audiences()
	if hasAud {
		var want []string
		switch a := aud.(type) {
		case string:
			want = []string{a}
		case []any:
			for _, e := range a {
				want = append(want, e.(string))
			}
		}
		if err != nil || len(gotAud) != len(want) {
			fail("Audiences=%q,%v want %q", gotAud, err, want)
		}
		for i := range want {
			if gotAud[i] != want[i] {
				fail("Audiences=%q want %q", gotAud, want)
			}
		}
	} else if err == nil {
		fail("Audiences succeeds (%q) although aud is absent", gotAud)
	}
	// time claims
	for _, c := range []struct {
		name string
		has  func() bool
		get  func() (time.Time, error)
	}{{"exp", v.HasExpiration, v.ExpiresAt}, {"nbf", v.HasNotBefore, v.NotBefore}, {"iat", v.HasIssuedAt, v.IssuedAt}} {
		want, present := claims[c.name]
		if c.has() != present {
			fail("Has(%s)=%v, want %v", c.name, c.has(), present)
		}
		got, err := c.get()
		if present {
			f := want.(float64)
			lo, hi := int64(math.Floor(f)), int64(math.Ceil(f))
			if odd[c.name] {
				lo, hi = lo-1, hi+1
			}
			if lo != hi {
				evid.Add("time_claims_compared_up_to_rounding", 1)
			}
			if err != nil || got.Before(time.Unix(lo, 0)) || got.After(time.Unix(hi, 0)) {
				fail("%s=%v,%v want %v (seconds %d..%d)", c.name, got, err, f, lo, hi)
			}
		} else if err == nil {
			fail("%s accessor succeeds (%v) although the claim is absent", c.name, got)
		}
	}
	// custom claims
	var wantNames []string
	for name, want := range claims {
		if isRegistered(name) {
			continue
		}
		wantNames = append(wantNames, name)
		kind := kindOf(want)
		has := map[string]bool{"null": v.HasNullClaim(name), "bool": v.HasBooleanClaim(name), "number": v.HasNumberClaim(name), "string": v.HasStringClaim(name), "array": v.HasArrayClaim(name), "object": v.HasObjectClaim(name)}
		for hk, hv := range has {
			if hv != (hk == kind) {
				fail("claim %q is a %s but Has<%s>Claim=%v", name, kind, hk, hv)
			}
		}
		switch w := want.(type) {
		case bool:
			if got, err := v.BooleanClaim(name); err != nil || got != w {
				fail("BooleanClaim(%q)=%v,%v want %v", name, got, err, w)
			}
		case float64:
			if got, err := v.NumberClaim(name); err != nil || (got != w && !(odd[name] && looseNumber(got, w))) {
				fail("NumberClaim(%q)=%v,%v want %v", name, got, err, w)
			}
		case string:
			if got, err := v.StringClaim(name); err != nil || got != w {
				fail("StringClaim(%q)=%q,%v want %q", name, got, err, w)
			}
		case []any:
			if got, err := v.ArrayClaim(name); err != nil || !(jsonEqual(any(got), any(w)) || (odd[name] && looseEqual(any(got), any(w)))) {
				fail("ArrayClaim(%q)=%#v,%v want %#v", name, got, err, w)
			}
		case map[string]any:
			if got, err := v.ObjectClaim(name); err != nil || !(jsonEqual(any(got), any(w)) || (odd[name] && looseEqual(any(got), any(w)))) {
				fail("ObjectClaim(%q)=%#v,%v want %#v", name, got, err, w)
			}
		}
		// getters of another kind must not succeed
		if kind != "bool" {
			if _, err := v.BooleanClaim(name); err == nil {
				fail("BooleanClaim(%q) succeeds on a %s", name, kind)
			}
		}
		if kind != "number" {
			if _, err := v.NumberClaim(name); err == nil {
				fail("NumberClaim(%q) succeeds on a %s", name, kind)
			}
		}
		if kind != "string" {
			if _, err := v.StringClaim(name); err == nil {
				fail("StringClaim(%q) succeeds on a %s", name, kind)
			}
		}
		if kind != "array" {
			if _, err := v.ArrayClaim(name); err == nil {
				fail("ArrayClaim(%q) succeeds on a %s", name, kind)
			}
		}
		if kind != "object" {
			if _, err := v.ObjectClaim(name); err == nil {
				fail("ObjectClaim(%q) succeeds on a %s", name, kind)
			}
		}
	}
	gotNames := append([]string{}, v.CustomClaimNames()...)
	sort.Strings(gotNames)
	sort.Strings(wantNames)
	if len(gotNames) != len(wantNames) {
		fail("CustomClaimNames=%q want %q", gotNames, wantNames)
	}
	for i := range wantNames {
		if gotNames[i] != wantNames[i] {
			fail("CustomClaimNames=%q want %q", gotNames, wantNames)
		}
	}
	// an absent name
	absent := "c09-absent-claim"
	if _, ok := claims[absent]; !ok {
		if v.HasStringClaim(absent) || v.HasNumberClaim(absent) || v.HasBooleanClaim(absent) || v.HasNullClaim(absent) || v.HasArrayClaim(absent) || v.HasObjectClaim(absent) {
			fail("Has*Claim true for the absent name %q", absent)
		}
	}
	// payload
	js, err := v.JSONPayload()
	if err != nil {
		fail("JSONPayload: %v", err)
	}
	var back any
	if err := json.Unmarshal(js, &back); err != nil {
		fail("JSONPayload %q is not JSON: %v", js, err)
	}
	bm, isObj := back.(map[string]any)
	if !isObj || len(bm) != len(claims) {
		fail("JSONPayload %s is not JSON-equal to the signed payload %s", js, jtext(claims))
	}
	for name, want := range claims {
		got, has := bm[name]
		if !has || !(jsonEqual(got, want) || (odd[name] && looseEqual(got, want))) {
			fail("JSONPayload %s is not JSON-equal to the signed payload %s (claim %q)", js, jtext(claims), name)
		}
	}
	if len(odd) > 0 {
		evid.Add("accepted_with_odd_number_claims", 1)
	}
}

// robust is the weaker oracle for tokens with constructs the property is silent about.
func robust(rt *rapid.T, ctx, token string, refs []jwtref.Key, got *jwt.VerifiedJWT, err error) {
	evid.Add("robustness_oracle_cases", 1)
	if err != nil {
		if got != nil {
			rt.Fatalf("%s\nrejected (%v) but a VerifiedJWT was returned", ctx, err)
		}
		evid.Add("robustness_rejected", 1)
		return
	}
	evid.Add("robustness_accepted", 1)
	if got == nil {
		rt.Fatalf("%s\nnil VerifiedJWT without error", ctx)
	}
	if !jwtref.SignatureValidLenient(token, refs) {
		rt.Fatalf("%s\nACCEPTED a token whose signature / MAC is not valid under any enabled key", ctx)
	}
	parts := strings.Split(token, ".")
	payload, _, derr := jwtref.B64Decode(parts[1])
	if derr != nil {
		rt.Fatalf("%s\nACCEPTED a token whose payload part is not base64url: %v", ctx, derr)
	}
	// RFC 8259 section 8.1 lets a parser skip a byte order mark in front of the text; encoding/json does not
	payload = bytes.TrimPrefix(payload, []byte("\xef\xbb\xbf"))
	var signed, returned any
	if uerr := json.Unmarshal(payload, &signed); uerr != nil {
		rt.Fatalf("%s\nACCEPTED a token whose payload %q is not JSON for encoding/json: %v", ctx, payload, uerr)
	}
	js, jerr := got.JSONPayload()
	if jerr != nil {
		rt.Fatalf("%s\nJSONPayload: %v", ctx, jerr)
	}
	if uerr := json.Unmarshal(js, &returned); uerr != nil {
		rt.Fatalf("%s\nJSONPayload %q is not JSON: %v", ctx, js, uerr)
	}
	if !jsonEqual(signed, returned) {
		rt.Fatalf("%s\nreturned claims %s differ from the signed payload %s", ctx, js, payload)
	}
}

// outcome of comparing Tink with the reference on one token.
type outcome struct {
	d      jwtref.Decision
	strict bool
}

// decide runs Tink and the reference on one token and applies the oracle that fits.
func decide(rt *rapid.T, ctx string, p *party, token string, v jwtref.Validator, tv *jwt.Validator) outcome {
	d := jwtref.Decide(token, p.refs, v)
	got, err := p.verify(token, tv)
	full := func() string {
		return fmt.Sprintf("%s\ntoken=%q\n%s\nkeyset:%s\nreference: accept=%v reason=%q silent=%v\nTink: err=%v", ctx, token, vdesc(v), describe(p.entries), d.Accept, d.Reason, d.Silent, err)
	}
	if !d.Strict() {
		robust(rt, full(), token, p.refs, got, err)
		return outcome{d, false}
	}
	if d.Accept != (err == nil) {
		if d.Accept {
			rt.Fatalf("%s\nTink REJECTS a token the property says must be accepted", full())
		}
		rt.Fatalf("%s\nTink ACCEPTS a token the property says must be rejected (rule: %s)", full(), d.Reason)
	}
	if err != nil {
		if got != nil {
			rt.Fatalf("%s\nrejected but a VerifiedJWT was returned", full())
		}
		evid.Add("decisions_reject", 1)
		return outcome{d, true}
	}
	evid.Add("decisions_accept", 1)
	checkVerifiedOdd(rt, full(), got, d.Typ, d.Claims, d.OddClaims)
	return outcome{d, true}
}

func reasonClass(d jwtref.Decision) string {
	r := d.Reason
	if i := strings.Index(r, ":"); i >= 0 {
		r = r[:i]
	}
	return r
}
