package c09

import (
	"fmt"
	"math/big"
	"sort"
	"strings"
	"testing"

	"pgregory.net/rapid"

	"github.com/tink-crypto/tink-go/v2/jwt"
	"github.com/tink-crypto/tink-go/v2/verifharness/internal/detrand"
	"github.com/tink-crypto/tink-go/v2/verifharness/internal/evid"
	"github.com/tink-crypto/tink-go/v2/verifharness/internal/ref/jwtref"
)

// expectedJWK is the JWK of a public key per RFC 7517 / RFC 7518 section 6: EC coordinates at the
// full width of the curve, RSA modulus and exponent minimal, all unpadded base64url.
func expectedJWK(k *jkey) map[string]any {
	m := map[string]any{"alg": k.alg}
	switch k.fam {
	case "ES":
		_, size := jwtref.CurveOf(k.alg)
		m["kty"] = "EC"
		m["crv"] = map[string]string{"ES256": "P-256", "ES384": "P-384", "ES512": "P-521"}[k.alg]
		// k.ecPoint is 0x04 || X || Y from crypto/ecdsa, both coordinates at the full width
		m["x"] = jwtref.B64Encode(k.ecPoint[1 : 1+size])
		m["y"] = jwtref.B64Encode(k.ecPoint[1+size:])
	case "RS", "PS":
		m["kty"] = "RSA"
		m["n"] = jwtref.B64Encode(k.mat.RSA.N.Bytes())
		m["e"] = jwtref.B64Encode(big.NewInt(int64(k.mat.RSA.E)).Bytes())
	}
	if kid, ok := k.kid(); ok {
		m["kid"] = kid
	}
	return m
}

// checkJWKSet checks the exported JSON against the enabled members of the keyset.
func checkJWKSet(rt *rapid.T, ctx string, jwkSet []byte, entries []entry) {
	v, flags, err := jwtref.ParseJSON(jwkSet)
	if err != nil || flags.Any() {
		rt.Fatalf("%s\nJWK set %q is not plain JSON: %v %+v", ctx, jwkSet, err, flags)
	}
	top, ok := v.(map[string]any)
	if !ok || len(top) != 1 {
		rt.Fatalf("%s\nJWK set %q is not an object with the single member \"keys\"", ctx, jwkSet)
	}
	keys, ok := top["keys"].([]any)
	if !ok {
		rt.Fatalf("%s\nJWK set %q has no \"keys\" array", ctx, jwkSet)
	}
	var enabled []*jkey
	for _, e := range entries {
		if e.enabled {
			enabled = append(enabled, e.k)
		}
	}
	if len(keys) != len(enabled) {
		rt.Fatalf("%s\nJWK set %q has %d keys, the keyset has %d enabled keys", ctx, jwkSet, len(keys), len(enabled))
	}
	for i, k := range enabled {
		got, ok := keys[i].(map[string]any)
		if !ok {
			rt.Fatalf("%s\nJWK %d is not an object", ctx, i)
		}
		want := expectedJWK(k)
		for name, w := range want {
			if g, has := got[name]; !has || !jsonEqual(g, w) {
				rt.Fatalf("%s\nJWK %d of %v: member %q is %s, want %s\nfull JWK: %s", ctx, i, k, name, jtext(g), jtext(w), jtext(got))
			}
		}
		for name, g := range got {
			if _, has := want[name]; has {
				continue
			}
			switch name {
			case "use":
				if g != "sig" {
					rt.Fatalf("%s\nJWK %d: use=%s", ctx, i, jtext(g))
				}
			case "key_ops":
				if !jsonEqual(g, []any{"verify"}) {
					rt.Fatalf("%s\nJWK %d: key_ops=%s", ctx, i, jtext(g))
				}
			default:
				rt.Fatalf("%s\nJWK %d of %v has the unexpected member %q=%s (private material? kid of a kid-less key?)\nfull JWK: %s", ctx, i, k, name, jtext(g), jtext(got))
			}
		}
	}
}

// TestJWK: public keyset -> JWK set -> public keyset. The imported keyset verifies every token the
// private keyset signs and decides every other token like the reference does for the converted
// keys (a key-ID-derived kid becomes a fixed custom kid; disabled keys are not exported); the JWK
// JSON has the members RFC 7517/7518 prescribe with the values computed from the key; keysets with
// private or symmetric keys are refused.
func TestJWK(t *testing.T) {
	check(t, func(rt *rapid.T) {
		detrand.Seed(rapid.Uint64().Draw(rt, "entropy"))
		var entries []entry
		if rapid.IntRange(0, 2).Draw(rt, "single_key") == 0 {
			entries = []entry{{k: drawKey(rt, "key", famJWK), enabled: true, primary: true}}
		} else {
			entries = drawKeyset(rt, famJWK)
		}
		p := newParty(rt, entries)
		if p == nil {
			rt.Skip("random key ID collided with an ID requirement")
		}
		ctx := "JWK conversion of keyset:" + describe(entries)
		jwkSet, err := jwt.JWKSetFromPublicKeysetHandle(p.pubH)
		if err != nil {
			rt.Fatalf("%s\nJWKSetFromPublicKeysetHandle fails: %v", ctx, err)
		}
		ctx += fmt.Sprintf("\nJWK set: %s", jwkSet)
		checkJWKSet(rt, ctx, jwkSet, entries)

		// refusals
		if out, err := jwt.JWKSetFromPublicKeysetHandle(p.privH); err == nil {
			rt.Fatalf("%s\nJWK export of the PRIVATE keyset succeeds: %s", ctx, out)
		}

		imported, err := jwt.JWKSetToPublicKeysetHandle(jwkSet)
		if err != nil {
			rt.Fatalf("%s\nJWKSetToPublicKeysetHandle fails on Tink's own output: %v", ctx, err)
		}
		ver, err := jwt.NewVerifier(imported)
		if err != nil {
			rt.Fatalf("%s\nNewVerifier(imported): %v", ctx, err)
		}
		// what the imported keyset is, in reference terms
		ip := &party{verify: ver.VerifyAndDecode}
		for _, e := range entries {
			if !e.enabled {
				continue
			}
			rk := e.k.ref(true)
			conv := *e.k
			if e.k.strategy == stTink {
				rk.Rule = jwtref.KidCustom // the JWK carries the kid as a plain string
				conv.strategy, conv.customKID = stCustom, jwtref.KeyIDKid(e.k.id)
			}
			ip.refs = append(ip.refs, rk)
			ip.entries = append(ip.entries, entry{k: &conv, enabled: true})
		}
		if imported.Len() != len(ip.refs) {
			rt.Fatalf("%s\nimported keyset has %d keys, want %d", ctx, imported.Len(), len(ip.refs))
		}

		typ, payload, v, opts := drawBaseOpts(rt)
		tv := tinkValidator(rt, v, false)
		body := object(payload)
		both := func(what, tok string) (orig, imp outcome) {
			orig = decide(rt, ctx+"\nORIGINAL public keyset, "+what, p, tok, v, tv)
			imp = decide(rt, ctx+"\nIMPORTED (from JWK) keyset, "+what, ip, tok, v, tv)
			return
		}
		raw, err := jwt.NewRawJWT(opts)
		if err != nil {
			rt.Fatalf("NewRawJWT: %v", err)
		}
		tok, err := p.sign(raw)
		if err != nil {
			rt.Fatalf("%s\nsign: %v", ctx, err)
		}
		if o, i := both("token signed by the private keyset", tok); !o.d.Accept || !i.d.Accept {
			rt.Fatalf("harness: reference rejects the private keyset's own token: %s / %s", o.d.Reason, i.d.Reason)
		}
		same, differ := 0, 0
		tally := func(o, i outcome) {
			if o.d.Accept == i.d.Accept {
				same++
			} else {
				differ++ // e.g. kid removed: required by a key-ID kid key, optional after the conversion
			}
		}
		for n, e := range entries {
			k := e.k
			one := single(rt, k)
			tok, err := one.sign(raw)
			if err != nil {
				rt.Fatalf("sign with %v: %v", k, err)
			}
			o, i := both(fmt.Sprintf("token signed by member [%d] alone", n), tok)
			tally(o, i)
			if e.enabled && (!o.d.Accept || !i.d.Accept) {
				rt.Fatalf("harness: reference rejects an enabled member's token: %s / %s", o.d.Reason, i.d.Reason)
			}
			hdr := goodHeader(k, typ)
			kid, _ := k.kid()
			wrong := rapid.SampledFrom([]string{kid + "x", "", jwtref.KeyIDKid(k.id + 1), strings.ToUpper(kid), "AAAAAA"}).Draw(rt, fmt.Sprintf("wrong_kid_%d", n))
			if wrong == kid {
				wrong += "_"
			}
			o, i = both(fmt.Sprintf("member [%d], reference-signed, wrong kid %q", n, wrong), makeToken(rt, k, k.alg, object(replaceMember(hdr, "kid", jstr(wrong))), body))
			tally(o, i)
			if k.strategy != stIgnored && e.enabled && (o.d.Accept || i.d.Accept) {
				// (only when another enabled member shares the material and does not care about the kid)
				shared := false
				for m, other := range entries {
					if m != n && other.enabled && sameMaterial(other.k, k) {
						shared = true
					}
				}
				if !shared {
					rt.Fatalf("harness: reference accepts a wrong kid: %+v %+v", o.d, i.d)
				}
			}
			o, i = both(fmt.Sprintf("member [%d], reference-signed, kid removed", n), makeToken(rt, k, k.alg, object(replaceMember(hdr, "kid", "")), body))
			tally(o, i)
			o, i = both(fmt.Sprintf("member [%d], reference-signed, kid not a string", n), makeToken(rt, k, k.alg, object(replaceMember(hdr, "kid", "1")), body))
			tally(o, i)
		}
		evid.Add("jwk_decisions_same_before_and_after", int64(same))
		evid.Add("jwk_decisions_changed_by_kid_conversion", int64(differ))
		var classes []string
		for _, e := range entries {
			c := e.k.class()
			if !e.enabled {
				c += "(disabled)"
			}
			classes = append(classes, c)
		}
		sort.Strings(classes)
		fams := map[string]bool{}
		strats := map[string]bool{}
		for _, e := range entries {
			fams[e.k.fam] = true
			strats[e.k.strategy] = true
		}
		evid.Case(fmt.Sprintf("jwk/keys=%d/families=%d/strategies=%d", len(entries), len(fams), len(strats)), true, evid.NewH().S(describe(entries)).S(body).Sum(), func() any {
			return map[string]any{"keyset": strings.Join(classes, ","), "jwk": string(jwkSet)}
		})
	})
}

// TestJWKRefusals: JWK export refuses keysets holding private or symmetric keys (and does not panic
// on key types it has no JWK form for).
func TestJWKRefusals(t *testing.T) {
	check(t, func(rt *rapid.T) {
		detrand.Seed(rapid.Uint64().Draw(rt, "entropy"))
		mac := rapid.IntRange(0, 2).Draw(rt, "class") == 0
		fams := famSig
		if mac {
			fams = famMAC
		}
		var entries []entry
		if rapid.Bool().Draw(rt, "single_key") {
			entries = []entry{{k: drawKey(rt, "key", fams), enabled: true, primary: true}}
		} else {
			entries = drawKeyset(rt, fams)
		}
		priv, pub := buildHandles(rt, entries)
		if priv == nil {
			rt.Skip("random key ID collided with an ID requirement")
		}
		out, err := jwt.JWKSetFromPublicKeysetHandle(priv)
		if err == nil {
			rt.Fatalf("JWK export of a keyset with private / symmetric keys succeeds:%s\noutput %s", describe(entries), out)
		}
		hasMLDSA := false
		for _, e := range entries {
			if e.k.fam == "ML-DSA" && e.enabled {
				hasMLDSA = true
			}
		}
		if pub != nil {
			out, err := jwt.JWKSetFromPublicKeysetHandle(pub) // ML-DSA has no JWK form here: error or not, no panic
			if err == nil {
				if hasMLDSA {
					evid.Add("jwk_export_with_mldsa_succeeded", 1)
				}
				// whatever was exported must not contain private members
				v, _, perr := jwtref.ParseJSON(out)
				if perr != nil {
					rt.Fatalf("JWK set %q is not JSON: %v", out, perr)
				}
				if top, ok := v.(map[string]any); ok {
					if ks, ok := top["keys"].([]any); ok {
						for _, k := range ks {
							if km, ok := k.(map[string]any); ok {
								for _, name := range []string{"d", "p", "q", "dp", "dq", "qi", "oth", "k", "priv"} {
									if _, has := km[name]; has {
										rt.Fatalf("exported JWK has private member %q: %s", name, out)
									}
								}
							}
						}
					}
				}
			} else if !hasMLDSA {
				rt.Fatalf("JWK export of a public ES/RS/PS keyset fails:%s\n%v", describe(entries), err)
			}
		}
		evid.Case(fmt.Sprintf("jwk-refusal/mac=%v/keys=%d/mldsa=%v", mac, len(entries), hasMLDSA), true, evid.NewH().S(describe(entries)).Sum(), func() any {
			return map[string]any{"keyset": describe(entries), "error": err.Error()}
		})
	})
}
