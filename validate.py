#!/usr/bin/env python3-vt
"""Validate MANIFEST.json and evidence/*.json against the schemas (developer aid)."""
import json, glob, sys, jsonschema
ok = True
try:
    jsonschema.validate(json.load(open('/verif/MANIFEST.json')), json.load(open('/root/.vp/MANIFEST.schema.json')))
except Exception as e:
    ok = False; print('MANIFEST:', str(e)[:400])
es = json.load(open('/root/.vp/EVIDENCE.schema.json'))
for f in sorted(glob.glob('/verif/evidence/*.json')):
    try:
        jsonschema.validate(json.load(open(f)), es)
    except Exception as e:
        ok = False; print(f, str(e)[:400])
m = json.load(open('/verif/MANIFEST.json'))
ids = {c['property_id'] for c in m['checks']} | {n['property_id'] for n in m.get('not_applicable', [])}
allp = [json.loads(l)['id'] for l in open('/verif/properties.jsonl')]
missing = [p for p in allp if p not in ids]
if missing: print('not yet in MANIFEST (checks or not_applicable):', missing)
print('valid' if ok else 'INVALID')
sys.exit(0 if ok else 1)
